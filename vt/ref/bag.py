"""R3: the trash as a bag of (original path, deletion second, payload digest, trash dir)."""
from . import glob as R4
from . import indexes as R5


def put(bag, path, date, digest, td):
    return sorted(bag + [[path, date, digest, td]])


def rm(bag, pattern):
    def m(path):
        subject = path if pattern.startswith('/') else path.rsplit('/', 1)[1]
        return R4.match(pattern, subject)
    return [e for e in bag if not m(e[0])]


def empty(bag, now, days):
    """now/date: 'YYYY-MM-DDThh:mm:ss' strings; days None = everything"""
    if days is None:
        return []
    import datetime
    real = getattr(datetime, '_vt_real_datetime', datetime.datetime)
    limit = real.strptime(now, '%Y-%m-%dT%H:%M:%S') - datetime.timedelta(days=days)
    return [e for e in bag if not real.strptime(e[1], '%Y-%m-%dT%H:%M:%S') < limit]


def restore(bag, listing, reply, exists):
    """listing: [(index, 'YYYY-MM-DD hh:mm:ss', path)] as printed by the tool; exists(path) -> bool at start.
    -> (new bag, restored [(path, date)], refused bool, kind)"""
    kind, want = R5.judge(reply, len(listing))
    if kind in ('invalid', 'empty') or not want:
        return bag, [], False, kind
    parts = R5.strict(reply) or R5.lenient(reply)
    order = []
    for p in parts:
        if isinstance(p, tuple):
            order.extend(range(p[0], p[1] + 1))
        else:
            order.append(p[0])
    created = set()
    out = list(bag)
    done = []
    refused = False
    for i in order:
        _, d, path = listing[i]
        if exists(path) or path in created or any(c == path or path.startswith(c + '/') for c in created if False):
            refused = True
            break
        dt = d.replace(' ', 'T')
        hit = [e for e in out if e[0] == path and e[1] == dt]
        if not hit:
            return out, done, True, 'listed-entry-not-in-bag'
        out.remove(hit[0])
        created.add(path)
        done.append((path, dt))
    return out, done, refused, kind
