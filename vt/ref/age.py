"""R6: which entries `trash-empty DAYS` must purge.  purge <=> the first DeletionDate line holds a strict
spec-format date that is a real calendar instant AND date < now - DAYS days (naive local datetimes)."""
import datetime
import re

from . import trashinfo as R1

LENIENT = re.compile(rb'^\d{1,4}-\d{1,2}-\d{1,2}T\d{1,2}:\d{1,2}:\d{1,2}$')


def _real():
    return getattr(datetime, '_vt_real_datetime', datetime.datetime)


def verdict(raw, now_s, days):
    """-> 'purge' | 'keep' | 'dontcare'   (days None => purge everything)"""
    if days is None:
        return 'purge'
    p = R1.parse(raw)
    d = p['date']
    if d is None:
        return 'keep'
    real = _real()
    now = real.strptime(now_s[:19], '%Y-%m-%dT%H:%M:%S')
    if len(now_s) > 20 and now_s[19] == '.':
        now = now + datetime.timedelta(microseconds=int(now_s[20:26].ljust(6, '0')))          # the clock has sub-second resolution, DeletionDate has not
    try:
        limit = now - datetime.timedelta(days=days)
    except OverflowError:
        return 'keep'         # no representable date is that old
    if p['date_valid']:
        when = real.strptime(d.decode('ascii'), '%Y-%m-%dT%H:%M:%S')
        return 'purge' if when < limit else 'keep'
    ds = d.strip()
    try:
        txt = ds.decode('utf-8')
    except UnicodeDecodeError:
        return 'keep'
    if LENIENT.match(ds) or (txt != ds.decode('ascii', 'ignore') and re.match(r'^\d+-\d+-\d+T\d+:\d+:\d+$', txt)):
        return 'dontcare'     # un-padded fields / non-ASCII digits: strptime-lenient, not spec format
    return 'keep'
