"""R2: the trash directory the FreeDesktop spec (and property C07) prescribes.

Pure function of kernel-observable facts; evaluated inside the chroot with plain os calls (no shim,
no trash-cli code).  mounts = the virtual mount table."""
import os
import stat


def vol(p, mounts):
    """deepest mount-table entry containing realpath(p) (an unresolved tail is kept by realpath)"""
    rp = os.path.realpath(p)
    best = '/'
    for m in mounts:
        if (rp == m or rp.startswith(m.rstrip('/') + '/')) and len(m) > len(best):
            best = m
    return best


def choose(a):
    """a = {arg, mounts, env, uid, trash_dir, flag, }  ->  {verdict: 'dir'|'fail', dir, form, V, why}"""
    arg, mounts, env, uid = a['arg'], a['mounts'], a['env'], a['uid']
    q = arg.rstrip('/') or '/'
    parent = os.path.dirname(q) or '.'
    V = vol(parent, mounts)
    res = {'V': V, 'why': []}
    T = a.get('trash_dir')
    if T:
        if vol(T, mounts) == V:
            return dict(res, verdict='dir', dir=T, form='any')
        res['why'].append('--trash-dir on volume %s' % vol(T, mounts))
        return dict(res, verdict='fail')
    H = None
    if env.get('XDG_DATA_HOME'):
        H = env['XDG_DATA_HOME'] + '/Trash'
    elif 'HOME' in env:
        H = env['HOME'] + '/.local/share/Trash'
    if H is not None:
        if vol(H, mounts) == V:
            return dict(res, verdict='dir', dir=H, form='abs')
        res['why'].append('home trash on volume %s' % vol(H, mounts))
    top = V.rstrip('/') + '/.Trash'
    try:
        st = os.lstat(top)
        if stat.S_ISLNK(st.st_mode):
            res['why'].append('.Trash is a symlink')
        elif not stat.S_ISDIR(st.st_mode):
            res['why'].append('.Trash is not a directory')
        elif not st.st_mode & stat.S_ISVTX:
            res['why'].append('.Trash not sticky')
        elif vol(top + '/%d' % uid, mounts) != V:
            res['why'].append('.Trash/uid on another volume')
        else:
            return dict(res, verdict='dir', dir=top + '/%d' % uid, form='rel')
    except OSError:
        res['why'].append('.Trash absent')
    alt = V.rstrip('/') + '/.Trash-%d' % uid
    if not os.path.lexists(alt) or (os.path.isdir(alt) and vol(alt, mounts) == V):
        return dict(res, verdict='dir', dir=alt, form='rel')
    res['why'].append('.Trash-uid unusable')
    if a.get('flag') and env.get('TRASH_ENABLE_HOME_FALLBACK') == '1' and H is not None:
        return dict(res, verdict='dir', dir=H, form='abs', fallback=True)
    return dict(res, verdict='fail')


def realpaths(paths):
    return [os.path.realpath(p) for p in paths]
