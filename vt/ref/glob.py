"""R4: reference shell-style matcher (case-sensitive).  Own backtracking implementation of
* ? [seq] [!seq]; an unterminated '[' is a literal.  star_slash=False gives the shell reading in
which wildcards never match '/', used to delimit the don't-care class."""


def _parse_class(pat, i):
    """pat[i] == '['; returns (negated, set_spec, next_index) or None if unterminated"""
    j = i + 1
    n = len(pat)
    neg = False
    if j < n and pat[j] == '!':
        neg = True
        j += 1
    start = j
    if j < n and pat[j] == ']':
        j += 1
    while j < n and pat[j] != ']':
        j += 1
    if j >= n:
        return None
    return neg, pat[start:j], j + 1


def _in_class(ch, spec):
    k = 0
    n = len(spec)
    while k < n:
        if k + 2 < n and spec[k + 1] == '-':
            lo, hi = spec[k], spec[k + 2]
            if lo <= ch <= hi:
                return True
            k += 3
        else:
            if spec[k] == ch:
                return True
            k += 1
    return False


def match(pat, s, star_slash=True):
    def m(i, j):
        while i < len(pat):
            c = pat[i]
            if c == '*':
                while i < len(pat) and pat[i] == '*':
                    i += 1
                if i == len(pat):
                    return star_slash or '/' not in s[j:]
                k = j
                while True:
                    if m(i, k):
                        return True
                    if k >= len(s) or (not star_slash and s[k] == '/'):
                        return False
                    k += 1
            if c == '?':
                if j >= len(s) or (not star_slash and s[j] == '/'):
                    return False
                i += 1
                j += 1
                continue
            if c == '[':
                pc = _parse_class(pat, i)
                if pc is not None:
                    neg, spec, nxt = pc
                    if j >= len(s) or (not star_slash and s[j] == '/'):
                        return False
                    if _in_class(s[j], spec) == neg:
                        return False
                    i = nxt
                    j += 1
                    continue
            if j >= len(s) or s[j] != c:
                return False
            i += 1
            j += 1
        return j == len(s)
    return m(0, 0)
