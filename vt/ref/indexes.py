"""R5: reference reading of a trash-restore reply.
reply := part (',' part)* ; part := int | int '-' int ; int := [0-9]+ (plain ASCII digits)."""
import re

INT = re.compile(r'^[0-9]+$')


def strict(reply):
    """-> list of index lists per part, or None if the reply is not in the grammar"""
    out = []
    for part in reply.split(','):
        if INT.match(part):
            out.append([int(part)])
            continue
        ab = part.split('-')
        if len(ab) == 2 and INT.match(ab[0]) and INT.match(ab[1]):
            a, b = int(ab[0]), int(ab[1])
            out.append((a, b))
            continue
        return None
    return out


def lenient(reply):
    """the reading Python's int() would give (spaces, signs, underscores, Unicode digits); None if none"""
    out = []
    for part in reply.split(','):
        ab = part.split('-')
        try:
            if len(ab) == 1:
                out.append([int(part)])
            elif len(ab) == 2 and ab[0] != '' and ab[1] != '':
                out.append((int(ab[0]), int(ab[1])))
            else:
                # forms with a sign such as '-1' or '1--2' : try whole-part int
                out.append([int(part)])
        except ValueError:
            return None
    return out


def denoted(parts, n):
    """-> (set of indices, status) status: 'ok' | 'out-of-range' | 'reversed'"""
    idx = []
    status = 'ok'
    for p in parts:
        if isinstance(p, tuple):
            a, b = p
            if a > b:
                status = 'reversed' if status == 'ok' else status
                continue
            if a < 0 or b >= n:
                return set(), 'out-of-range'
            idx.extend(range(a, b + 1))
        else:
            if p[0] < 0 or p[0] >= n:
                return set(), 'out-of-range'
            idx.append(p[0])
    return set(idx), status


def judge(reply, n):
    """-> (kind, expected_set)
       kind: 'empty' (nothing, any exit) | 'valid' (exactly set) | 'invalid' (nothing, exit != 0) |
             'dontcare' (either rejection or the lenient set) | 'reversed' (set or rejection)"""
    if reply == '':
        return 'empty', set()
    s = strict(reply)
    if s is not None:
        st, status = denoted(s, n)
        if status == 'out-of-range':
            return 'invalid', set()
        if status == 'reversed':
            return 'reversed', st
        return 'valid', st
    l = lenient(reply)
    if l is not None:
        st, status = denoted(l, n)
        if status == 'out-of-range':
            return 'invalid', set()
        return 'dontcare', st
    return 'invalid', set()
