"""R1: reference reading of a .trashinfo file, written from the FreeDesktop Trash spec 1.0.
Independent of trash-cli: own percent decoder over bytes, own line grammar."""
import re

HEX = b'0123456789abcdefABCDEF'
DATE_RE = re.compile(rb'^\d{4}-\d\d-\d\dT\d\d:\d\d:\d\d$')


def unquote(b):
    """%XX -> byte; anything else literal (a '%' not followed by two hex digits stays literal)"""
    out = bytearray()
    i, n = 0, len(b)
    while i < n:
        if b[i] == 0x25 and i + 2 < n + 0 + 1 and i + 3 <= n and b[i + 1] in HEX and b[i + 2] in HEX:
            out.append(int(b[i + 1:i + 3], 16))
            i += 3
        else:
            out.append(b[i])
            i += 1
    return bytes(out)


def well_escaped(v):
    """value is printable ASCII, no control chars, every % followed by two hex digits"""
    i, n = 0, len(v)
    while i < n:
        c = v[i]
        if c < 0x20 or c > 0x7e:
            return False
        if c == 0x25:
            if i + 3 > n or v[i + 1] not in HEX or v[i + 2] not in HEX:
                return False
            i += 3
            continue
        i += 1
    return True


def valid_date(s):
    """strict spec format and a real calendar instant"""
    if not DATE_RE.match(s):
        return False
    import datetime
    real = getattr(datetime, '_vt_real_datetime', datetime.datetime)
    try:
        real.strptime(s.decode('ascii'), '%Y-%m-%dT%H:%M:%S')
        return True
    except ValueError:
        return False


def parse(raw):
    """-> dict(header, path_raw, path, date, date_valid)   (bytes values; None when missing)"""
    lines = raw.split(b'\n')
    r = {'header': bool(lines) and lines[0] == b'[Trash Info]', 'path_raw': None, 'path': None,
         'date': None, 'date_valid': False, 'nlines': len(lines)}
    for ln in lines:
        if r['path_raw'] is None and ln.startswith(b'Path='):
            r['path_raw'] = ln[5:]
            r['path'] = unquote(ln[5:])
        if r['date'] is None and ln.startswith(b'DeletionDate='):
            r['date'] = ln[13:]
            r['date_valid'] = valid_date(ln[13:])
    return r


def conformant(raw):
    """list of reasons why raw is not a spec-conformant file as trash-put must write it"""
    bad = []
    if not raw.endswith(b'\n'):
        bad.append('no final newline')
    lines = raw.split(b'\n')
    if lines[0] != b'[Trash Info]':
        bad.append('first line is not [Trash Info]')
    keys = [ln.split(b'=', 1)[0] for ln in lines[1:] if ln]
    if keys.count(b'Path') != 1 or keys.count(b'DeletionDate') != 1:
        bad.append('Path/DeletionDate not exactly once: %r' % keys)
    if any(b'=' not in ln for ln in lines[1:] if ln):
        bad.append('line without key=value')
    p = parse(raw)
    if p['path_raw'] is None or not well_escaped(p['path_raw']):
        bad.append('Path value not properly escaped: %r' % p['path_raw'])
    if not p['date_valid']:
        bad.append('DeletionDate not YYYY-MM-DDThh:mm:ss: %r' % p['date'])
    return bad
