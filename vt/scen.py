"""Shared scenario vocabulary: entry kinds, standard worlds, listing parsers."""
import os
import re

from . import world
from .ref import trashinfo as R1

KINDS = ['file', 'empty', 'tree', 'lfile', 'ldir', 'ldang']
HOME_TRASH = '/home/u/.local/share/Trash'


def add_entry(W, path, kind, tag=''):
    """add an entry of the given kind at path (parents created)"""
    if kind == 'file':
        W.file(path, 'content of %s%s\n' % (path, tag), mode=0o640)
    elif kind == 'empty':
        W.file(path, '', mode=0o600)
    elif kind == 'tree':
        W.dir(path, mode=0o750)
        W.file(path + '/f1', 'f1 in %s%s\n' % (path, tag), mode=0o604)
        W.dir(path + '/sub', mode=0o700)
        W.file(path + '/sub/deep', 'deep in %s\n' % path, mode=0o444)
        W.link(path + '/inner', 'sub/deep')
        W.link(path + '/dang', 'nowhere')
    elif kind == 'lfile':
        W.link(path, '/home/u/tgt/file')
    elif kind == 'ldir':
        W.link(path, '/home/u/tgt/dir')
    elif kind == 'ldang':
        W.link(path, 'missing-target')
    else:
        raise ValueError(kind)
    return W


def base_world(mounts=('/',), **kw):
    W = world.World(mounts=mounts, **kw)
    W.dir('/home/u/w')
    W.file('/home/u/tgt/file', 'link target file\n')
    W.file('/home/u/tgt/dir/inside', 'inside target dir\n')
    W.file('/outside/keep', 'must never change\n')
    return W


LIST_RE = re.compile(r'^\s*(\d+) (\S+ \S+) (.*)$')


def parse_restore_listing(out):
    """[(index, date, path)] from trash-restore stdout (paths with newlines span lines)"""
    res = []
    for ln in out.split('\n'):
        m = LIST_RE.match(ln)
        if m and (ln.startswith(' ') or ln[:4].strip().isdigit()) and len(ln) > 5 and ln[4] == ' ':
            res.append([int(m.group(1)), m.group(2), m.group(3)])
        elif res and not ln.startswith('What file to restore') and ln != '':
            res[-1][2] += '\n' + ln
    return [tuple(x) for x in res]


def info_of(snap, td, name):
    v = snap.get('%s/info/%s.trashinfo' % (td, name))
    return v[3] if v and v[0] == 'f' else None


def trash_state(snap):
    """{trashdir: (infos, payloads)} for all trash dirs in the snapshot"""
    return {td: world.pairs(snap, td) for td in world.trash_dirs(snap)}


def new_infos(before, after):
    """[(trashdir, infoname)] present in after but not in before"""
    out = []
    for p in after:
        if p not in before and p.endswith('.trashinfo') and os.path.basename(os.path.dirname(p)) == 'info':
            out.append((os.path.dirname(os.path.dirname(p)), os.path.basename(p)[:-len('.trashinfo')]))
    return sorted(out)


def new_payloads(before, after):
    out = []
    for p in after:
        d = os.path.dirname(p)
        if p not in before and os.path.basename(d) == 'files' and (os.path.dirname(d) + '/info') in after:
            out.append((os.path.dirname(d), os.path.basename(p)))
    return sorted(out)
