"""Shared scenario vocabulary: entry kinds, standard worlds, listing parsers."""
import os
import re

from . import world
from .ref import trashinfo as R1

KINDS = ['file', 'empty', 'tree', 'lfile', 'ldir', 'ldang']
HOME_TRASH = '/home/u/.local/share/Trash'


def add_entry(W, path, kind, tag=''):
    """add an entry of the given kind at path (parents created)"""
    if kind == 'file':
        W.file(path, 'content of %s%s\n' % (path, tag), mode=0o640)
    elif kind == 'empty':
        W.file(path, '', mode=0o600)
    elif kind == 'tree':
        W.dir(path, mode=0o750)
        W.file(path + '/f1', 'f1 in %s%s\n' % (path, tag), mode=0o604)
        W.dir(path + '/sub', mode=0o700)
        W.file(path + '/sub/deep', 'deep in %s\n' % path, mode=0o444)
        W.link(path + '/inner', 'sub/deep')
        W.link(path + '/dang', 'nowhere')
    elif kind == 'tree-ro':
        # a directory tree without any write permission bit (not in KINDS: used where modes matter)
        W.dir(path, mode=0o555)
        W.file(path + '/f1', 'f1 in %s%s\n' % (path, tag), mode=0o444)
        W.dir(path + '/sub', mode=0o500)
        W.file(path + '/sub/deep', 'deep in %s\n' % path, mode=0o400)
    elif kind == 'lfile':
        W.link(path, '/home/u/tgt/file')
    elif kind == 'ldir':
        W.link(path, '/home/u/tgt/dir')
    elif kind == 'ldang':
        W.link(path, 'missing-target')
    else:
        raise ValueError(kind)
    return W


def base_world(mounts=('/',), **kw):
    W = world.World(mounts=mounts, **kw)
    W.dir('/home/u/w')
    W.file('/home/u/tgt/file', 'link target file\n')
    W.file('/home/u/tgt/dir/inside', 'inside target dir\n')
    W.file('/outside/keep', 'must never change\n')
    return W


LIST_RE = re.compile(r'^ *(\d+) (\d{4}-\d\d-\d\d \d\d:\d\d:\d\d|None) (.*)$')


def parse_restore_listing(out):
    """[(index, date, path)] from trash-restore stdout.  A listing line is '%4d <date|None> <path>' whose
    index is the next expected one; any other line continues the previous path (names with newlines)."""
    res = []
    for ln in out.split('\n'):
        m = LIST_RE.match(ln)
        if m and int(m.group(1)) == len(res) and len(ln) > 5 and ln[:4].strip() == m.group(1):
            res.append([int(m.group(1)), m.group(2), m.group(3)])
        elif res and not ln.startswith('What file to restore') and ln != '':
            res[-1][2] += '\n' + ln
    return [tuple(x) for x in res]


def info_of(snap, td, name):
    v = snap.get('%s/info/%s.trashinfo' % (td, name))
    return v[3] if v and v[0] == 'f' else None


def trash_state(snap):
    """{trashdir: (infos, payloads)} for all trash dirs in the snapshot"""
    return {td: world.pairs(snap, td) for td in world.trash_dirs(snap)}


def new_infos(before, after):
    """[(trashdir, infoname)] present in after but not in before"""
    out = []
    for p in after:
        if p not in before and p.endswith('.trashinfo') and os.path.basename(os.path.dirname(p)) == 'info':
            out.append((os.path.dirname(os.path.dirname(p)), os.path.basename(p)[:-len('.trashinfo')]))
    return sorted(out)


def new_payloads(before, after):
    out = []
    for p in after:
        d = os.path.dirname(p)
        if p not in before and os.path.basename(d) == 'files' and (os.path.dirname(d) + '/info') in after:
            out.append((os.path.dirname(d), os.path.basename(p)))
    return sorted(out)


# ---------------------------------------------------------------------------------------------
# classification of what a trash-put run did to one denoted entry (used by C01, C05, C16, C17)
SKELETON_NAMES = ('files', 'info')


def trashinfo_location(td, raw):
    """absolute location(s) a .trashinfo in trash dir td may denote by the spec: absolute Path as
    is; relative Path joined to an ancestor directory of td (the volume top dir)"""
    p = R1.parse(raw)
    if p['path'] is None:
        return None, p
    loc = p['path'].decode('utf-8', 'surrogateescape')
    return loc, p


def location_matches(td, loc, E):
    if loc.startswith('/'):
        return loc == E
    if not (E == loc or E.endswith('/' + loc)):
        return False
    top = E[:-len(loc) - 1] or '/'
    return td == top or td.startswith(top.rstrip('/') + '/')


def classify_put(before, after, E, orig=None, orig_path=None, others=()):
    """-> dict(state=TRASHED|UNTOUCHED|HALF, why=[...], pair=(td, name)|None, new_infos, new_payloads)
    before/after: whole-world snapshots; E: canonical entry path (or None = argument names nothing).
    orig/orig_path: snapshot+path holding the original entry (default before/E)."""
    orig = orig if orig is not None else before
    orig_path = orig_path or E
    ni, npay = new_infos(before, after), new_payloads(before, after)
    # what merely travelled INSIDE a new payload (a directory that happens to have files/ and info/ children) is part of that payload
    tops = ['%s/files/%s/' % x for x in npay]
    nested = lambda td: any((td + '/').startswith(t) for t in tops)
    ni = [x for x in ni if not nested(x[0])]
    npay = [x for x in npay if not nested(x[0])]
    if others:
        # multi-argument run: leave out the pairs that belong to the other denoted entries
        mine_i = []
        foreign = set()
        for td, nm in ni:
            loc, _p = trashinfo_location(td, info_of(after, td, nm) or b'')
            if loc is not None and any(location_matches(td, loc, o) for o in others) and not (
                    E is not None and location_matches(td, loc, E)):
                foreign.add((td, nm))
            else:
                mine_i.append((td, nm))
        ni = mine_i
        npay = [x for x in npay if x not in foreign]
    why = []
    res = {'new_infos': ni, 'new_payloads': npay, 'pair': None}
    if E is None:
        res['state'] = 'UNTOUCHED' if not ni and not npay else 'HALF'
        if ni or npay:
            why.append('trash gained %r %r for an argument that names nothing' % (ni, npay))
        res['why'] = why
        return res
    here_before = world.under(before, E)
    here_after = world.under(after, E)
    # judged modulo newly created, empty trash-skeleton directories inside E (and dir mtimes)
    def strip_skel(sub_b, sub_a):
        out = dict(sub_a)
        for rel in sorted(sub_a, key=len, reverse=True):
            if rel not in sub_b and sub_a[rel][0] == 'd' and not any(
                    k != rel and k.startswith(rel + '/') and k in out for k in sub_a):
                out.pop(rel)
        return out
    here_after_s = strip_skel(here_before, here_after)
    untouched = (set(here_before) == set(here_after_s) and all(
        world.norm(here_before[k], dir_mtime=False, info_mtime=True) ==
        world.norm(here_after_s[k], dir_mtime=False, info_mtime=True) for k in here_before))
    gone = not here_after
    if untouched and not ni and not npay:
        res['state'] = 'UNTOUCHED'
    elif gone and len(ni) == 1 and len(npay) == 1 and ni[0] == npay[0]:
        td, nm = ni[0]
        raw = info_of(after, td, nm)
        ok = True
        if not world.same_entry(orig, orig_path, after, '%s/files/%s' % (td, nm)):
            ok = False
            why.append('payload %s/files/%s differs from the original entry' % (td, nm))
        loc, p = trashinfo_location(td, raw or b'')
        if raw is None or loc is None or not location_matches(td, loc, E):
            ok = False
            why.append('info does not name the entry: %r' % (raw,))
        elif not p['date_valid'] or not p['header']:
            ok = False
            why.append('info malformed: %r' % (raw,))
        res['state'] = 'TRASHED' if ok else 'HALF'
        res['pair'] = (td, nm)
    else:
        res['state'] = 'HALF'
        if untouched:
            why.append('entry untouched but trash gained infos=%r payloads=%r' % (ni, npay))
        elif gone:
            why.append('entry gone; new infos=%r payloads=%r' % (ni, npay))
        else:
            why.append('entry partly changed: %r; new infos=%r payloads=%r' % (
                sorted(set(here_before) ^ set(here_after_s))[:6], ni, npay))
    res['why'] = why
    return res


def frame_changes(before, after, E=None, allow_skeleton=True):
    """paths changed outside E and outside new pairs: [(path, what)].  New empty directories and
    directories containing only new directories (trash skeleton, created on demand) are allowed."""
    out = []
    added_dirs = set()
    for p in sorted(set(before) | set(after)):
        if E and (p == E or p.startswith(E.rstrip('/') + '/')):
            continue
        a, b = before.get(p), after.get(p)
        if a is None:
            d = os.path.dirname(p)
            if b[0] == 'd' and allow_skeleton:
                added_dirs.add(p)
                continue
            if os.path.basename(d) in ('files', 'info') or '/files/' in p:
                continue          # accounted for by new_infos/new_payloads
            out.append((p, 'added'))
        elif b is None:
            out.append((p, 'removed'))
        elif world.norm(a, p) != world.norm(b, p):
            out.append((p, 'modified'))
    return out


# ---------------------------------------------------------------------------------------------
def add_trash_dir(W, td):
    W.dir(td, mode=0o700).dir(td + '/files', mode=0o700).dir(td + '/info', mode=0o700)
    return W


def add_trashed(W, td, name, path_value, date_value='2020-01-01T00:00:00', payload='file', raw=None, tag=''):
    """hand-built trash entry: info/<name>.trashinfo (+ payload of the given kind; None = no payload)"""
    if td + '/info' not in W.nodes:
        add_trash_dir(W, td)
    if raw is None:
        raw = '[Trash Info]\nPath=%s\n' % path_value
        if date_value is not None:
            raw += 'DeletionDate=%s\n' % date_value
    W.file('%s/info/%s.trashinfo' % (td, name), raw)
    if payload:
        add_entry(W, '%s/files/%s' % (td, name), payload, tag=tag)
    return W


def entry_state(before, after, td, name):
    """'kept' (pair byte-identical) | 'purged' (both gone) | 'half:<what>'"""
    ip, fp = '%s/info/%s.trashinfo' % (td, name), '%s/files/%s' % (td, name)
    ib, ia = before.get(ip), after.get(ip)
    fb, fa = world.under(before, fp), world.under(after, fp)
    if ia is None and not fa:
        return 'purged'
    if ia is not None and ia[3] == ib[3] and fa == fb:
        return 'kept'
    if ia is None:
        return 'half:info-gone-payload-left'
    if not fa and fb:
        return 'half:payload-gone-info-left'
    return 'half:modified'
