"""World specs (JSON-able descriptions of a directory tree + environment) and snapshots."""
import hashlib
import os
import stat

T0 = 1500000000  # base mtime (s) for generated nodes


def _b(s):
    """content str (latin-1 view of bytes) -> bytes"""
    return s.encode('latin-1') if isinstance(s, str) else s


def _s(b):
    return b.decode('latin-1')


class World(object):
    """Small builder DSL.  Paths are str (surrogateescape for non-UTF-8 bytes)."""

    def __init__(self, mounts=('/',), env=None, uid=0, cwd='/home/u/w', now='2024-05-06T07:08:09'):
        self.nodes = {}      # path -> node tuple
        self.order = []
        self.mounts = list(mounts)
        self.env = dict(env) if env is not None else {'HOME': '/home/u'}
        self.uid = uid
        self.cwd = cwd
        self.now = now
        self._n = 0
        for m in self.mounts:
            if m != '/':
                self.dir(m)

    def _mt(self, mtime):
        self._n += 1
        return mtime if mtime is not None else (T0 + 1000 * self._n) * 10 ** 9

    def _parents(self, path):
        d = os.path.dirname(path)
        if d and d != '/' and d not in self.nodes:
            self.dir(d)

    def dir(self, path, mode=0o755, mtime=None):
        self._parents(path)
        if path not in self.nodes:
            self.order.append(path)
        self.nodes[path] = ['d', path, mode, self._mt(mtime)]
        return self

    def file(self, path, content='', mode=0o644, mtime=None):
        self._parents(path)
        if path not in self.nodes:
            self.order.append(path)
        if isinstance(content, str):
            content = content.encode('utf-8', 'surrogateescape')
        content = _s(content)
        self.nodes[path] = ['f', path, mode, self._mt(mtime), content]
        return self

    def link(self, path, target, mtime=None):
        self._parents(path)
        if path not in self.nodes:
            self.order.append(path)
        self.nodes[path] = ['l', path, target, self._mt(mtime)]
        return self

    def spec(self):
        return {'nodes': [self.nodes[p] for p in self.order], 'mounts': self.mounts,
                'env': self.env, 'uid': self.uid, 'cwd': self.cwd, 'now': self.now}


def build(root, nodes):
    """materialise nodes under root (root must exist and be empty)"""
    enc = os.fsencode
    dirs = []
    for n in nodes:
        p = enc(root + n[1])
        if n[0] == 'd':
            if not os.path.isdir(p):
                os.mkdir(p)
            dirs.append(n)
        elif n[0] == 'f':
            fd = os.open(p, os.O_WRONLY | os.O_CREAT | os.O_TRUNC, 0o600)
            data = _b(n[4])
            while data:
                k = os.write(fd, data)
                data = data[k:]
            os.close(fd)
            os.chmod(p, n[2])
            os.utime(p, ns=(n[3], n[3]))
        elif n[0] == 'l':
            os.symlink(enc(n[2]), p)
            os.utime(p, ns=(n[3], n[3]), follow_symlinks=False)
    for n in reversed(dirs):
        p = enc(root + n[1])
        os.chmod(p, n[2])
        os.utime(p, ns=(n[3], n[3]))


def snapshot(root, top='/'):
    """{path: ('d', mode, mtime) | ('f', mode, mtime, bytes) | ('l', target, mtime)}"""
    out = {}
    broot = os.fsencode(root)

    def visit(bp, rel):
        st = os.lstat(bp)
        m = st.st_mode
        if stat.S_ISDIR(m):
            out[rel] = ('d', stat.S_IMODE(m), st.st_mtime_ns)
            try:
                names = sorted(os.listdir(bp))
            except OSError:
                names = []
            for nm in names:
                visit(bp + b'/' + nm, (rel if rel != '/' else '') + '/' + os.fsdecode(nm))
        elif stat.S_ISLNK(m):
            out[rel] = ('l', os.fsdecode(os.readlink(bp)), st.st_mtime_ns)
        elif stat.S_ISREG(m):
            with open(bp, 'rb') as f:
                out[rel] = ('f', stat.S_IMODE(m), st.st_mtime_ns, f.read())
        else:
            out[rel] = ('o', stat.S_IMODE(m), st.st_mtime_ns)
    start = broot + os.fsencode(top if top != '/' else '')
    if os.path.lexists(start) or top == '/':
        visit(start if top != '/' else broot, top)
    return out


def to_nodes(snap):
    """snapshot -> node list (rebuildable)"""
    nodes = []
    for p in sorted(snap):
        if p == '/':
            continue
        v = snap[p]
        if v[0] == 'd':
            nodes.append(['d', p, v[1], v[2]])
        elif v[0] == 'f':
            nodes.append(['f', p, v[1], v[2], _s(v[3])])
        elif v[0] == 'l':
            nodes.append(['l', p, v[1], v[2]])
    return nodes


def under(snap, top):
    """sub-snapshot keyed by path relative to top ('' for top itself)"""
    pre = top.rstrip('/') + '/'
    out = {}
    for p, v in snap.items():
        if p == top:
            out[''] = v
        elif p.startswith(pre):
            out[p[len(pre) - 1:]] = v
    return out


def is_info(p):
    return p.endswith('.trashinfo') and '/info/' in p


def norm(v, p='', dir_mtime=False, info_mtime=False, all_mtime=True, link_mtime=False):
    """normalise a node value for comparison"""
    if v[0] == 'd':
        return ('d', v[1], v[2] if dir_mtime else 0)
    if v[0] == 'f':
        keep = all_mtime and (info_mtime or not is_info(p))
        return ('f', v[1], v[2] if keep else 0, v[3])
    if v[0] == 'l':
        return ('l', v[1], v[2] if (all_mtime and link_mtime) else 0)
    return v


def diff(a, b, dir_mtime=False, info_mtime=False, ignore=()):
    """paths whose normalised value differs (sorted); ignore = iterable of path prefixes"""
    out = []
    for p in sorted(set(a) | set(b)):
        if any(p == i or p.startswith(i.rstrip('/') + '/') for i in ignore):
            continue
        va, vb = a.get(p), b.get(p)
        if va is None or vb is None:
            out.append(p)
        elif norm(va, p, dir_mtime, info_mtime) != norm(vb, p, dir_mtime, info_mtime):
            out.append(p)
    return out


def same_entry(a, pa, b, pb, dir_mtime=True):
    """is the entry (whole subtree) at pa in snapshot a identical to the one at pb in b?"""
    sa, sb = under(a, pa), under(b, pb)
    if not sa or set(sa) != set(sb):
        return False
    for k in sa:
        if norm(sa[k], '', dir_mtime, True) != norm(sb[k], '', dir_mtime, True):
            return False
    return True


def canon_hash(snap, extra=''):
    h = hashlib.sha1()
    for p in sorted(snap):
        h.update(repr((p, norm(snap[p], p))).encode('utf-8', 'surrogateescape'))
    h.update(extra.encode('utf-8', 'surrogateescape'))
    return h.hexdigest()


def trash_dirs(snap):
    """all directories in the snapshot that look like trash dirs (have files/ or info/ child)"""
    out = set()
    for p, v in snap.items():
        if v[0] == 'd' and (p.endswith('/files') or p.endswith('/info')):
            out.add(os.path.dirname(p))
    return sorted(out)


def pairs(snap, td):
    """(infos {name: bytes}, payload names set) of trash dir td"""
    infos, pay = {}, set()
    pi, pf = td + '/info/', td + '/files/'
    for p, v in snap.items():
        if p.startswith(pi) and '/' not in p[len(pi):]:
            nm = p[len(pi):]
            infos[nm] = v[3] if v[0] == 'f' else None
        elif p.startswith(pf) and '/' not in p[len(pf):]:
            pay.add(p[len(pf):])
    return infos, pay
