"""Interposition layer: owns every environment answer trash-cli can observe.

Installed inside the forked, chrooted child (see cell.py) by replacing attributes of the
`os`, `builtins`, `io`, `posixpath`, `psutil`, `random` modules.  Every hooked call is
decomposed into one trace record and passes through the current *plan* (crash point,
injected faults, operation budget, scheduler hand-off, virtual mount table) before the real
system call is made on the real tmpfs.
"""
import builtins
import errno as _errno
import io
import json
import os
import posixpath
import stat as _stat
import sys

_o = {}            # original functions, by name (filled at the end of this module)
_state = None      # the active Shim


class Plan(object):
    """Everything the harness decides for one execution (JSON-able dict in, object here)."""

    def __init__(self, d=None):
        d = d or {}
        self.crash_at = d.get('crash_at')            # seq number: die *before* this op
        self.crash_after = d.get('crash_after')      # seq number: die right after this op
        self.interrupt_before = d.get('interrupt_before')   # seq number: deliver SIGINT (KeyboardInterrupt) before / after this op
        self.interrupt_after = d.get('interrupt_after')
        self.faults = [dict(f) for f in d.get('faults', [])]  # {at, errno, sticky}
        self.budget = d.get('budget')                # max ops
        self.mounts = d.get('mounts', ['/'])
        self.dir_order = d.get('dir_order', 'sorted')  # sorted | reverse | ['perm', k]
        self.randints = list(d.get('randints', []))
        self.isatty = d.get('isatty', False)
        self.uid = d.get('uid', 0)
        self.pid = d.get('pid', 4242)                # os.getpid() answer (a real pid would defeat state merging)
        self.resolve = d.get('resolve', 'mut')       # which ops get entry paths: mut | all
        self.sched_fd = d.get('sched_fd')            # socket fd to the scheduler (E5)
        self.shared = d.get('shared', [])            # shared-zone prefixes (E5)
        self.hooks = d.get('hooks', True)            # False: plain mode (T1)


MUTATING = set('mkdir rmdir unlink remove rename replace link symlink chmod fchmod chown '
               'lchown fchown utime truncate ftruncate setxattr removexattr write sendfile '
               'copy_file_range'.split())

# name -> (path arg positions, resolution mode)
PATH_OPS = {
    'stat': ([0], 'target'), 'lstat': ([0], 'entry'), 'access': ([0], 'target'),
    'readlink': ([0], 'entry'), 'listdir': ([0], 'target'), 'scandir': ([0], 'target'),
    'mkdir': ([0], 'entry'), 'rmdir': ([0], 'entry'), 'unlink': ([0], 'entry'),
    'remove': ([0], 'entry'), 'rename': ([0, 1], 'entry'), 'replace': ([0, 1], 'entry'),
    'link': ([0, 1], 'entry'), 'symlink': ([1], 'entry'), 'chmod': ([0], 'target'),
    'chown': ([0], 'target'), 'lchown': ([0], 'entry'), 'utime': ([0], 'target'),
    'truncate': ([0], 'target'), 'listxattr': ([0], 'target'), 'getxattr': ([0], 'target'),
    'setxattr': ([0], 'target'), 'removexattr': ([0], 'target'),
    'open': ([0], 'target'),
}
FD_OPS = {'write': [0], 'read': [0], 'close': [0], 'fsync': [0], 'fdatasync': [0],
          'fstat': [0], 'fchmod': [0], 'fchown': [0], 'ftruncate': [0],
          'sendfile': [0, 1], 'copy_file_range': [1, 0]}


def _ename(e):
    return _errno.errorcode.get(e, str(e))


class Crash(BaseException):
    pass


class Shim(object):
    def __init__(self, plan, trace_fd):
        self.plan = plan
        self.trace_fd = trace_fd
        self.seq = 0
        self.buf = []
        self.inside = 0
        self.fdpath = {}
        self.sticky = []       # (op, dirpath, errno)
        self.mounts = sorted(set(plan.mounts) | {'/'}, key=len, reverse=True)
        self.rand_i = 0
        self.hist = None       # running hash for E5
        if plan.sched_fd is not None:
            import hashlib
            self.hist = hashlib.sha1()

    # ---- path bookkeeping (runs with hooks bypassed) ---------------------------------
    def _abs(self, p, dir_fd=None):
        if isinstance(p, int):
            return self.fdpath.get(p, '<fd%d>' % p)
        p = os.fspath(p)
        if isinstance(p, bytes):
            p = os.fsdecode(p)
        if not p.startswith('/'):
            if dir_fd is not None:
                base = self.fdpath.get(dir_fd, '<fd%d>' % dir_fd)
            else:
                base = os.getcwd()
            p = base.rstrip('/') + '/' + p
        return p

    def entry(self, ap, mode):
        """canonical name of the directory entry (mode 'entry') or object (mode 'target')"""
        self.inside += 1
        try:
            if mode == 'target':
                return posixpath.realpath(ap)
            q = ap.rstrip('/') or '/'
            d, b = posixpath.split(q)
            if b in ('', '.', '..'):
                return posixpath.realpath(q)
            return posixpath.join(posixpath.realpath(d), b)
        except Exception:
            return ap
        finally:
            self.inside -= 1

    def virtual_dev(self, st, op, paths, entries, mode):
        """st_dev as the virtual mount table sees it: every volume other than / gets a device number of its own"""
        try:
            if entries:
                e = entries[0]
            elif op == 'fstat':
                e = paths[0]
            else:
                e = self.entry(paths[0], mode or 'target')
            if op == 'lstat' or mode == 'entry':
                vol = e if e in self.mounts else self.volume_of_dir(posixpath.dirname(e))
            else:
                vol = self.volume_of_dir(e)
            if vol == '/':
                return st
            t, d = st.__reduce__()[1]
            t = list(t)
            t[2] = st.st_dev + 1000 + self.mounts.index(vol)
            return type(st)(tuple(t), d)
        except Exception:
            return st

    def volume_of_dir(self, d):
        for m in self.mounts:
            if d == m or m == '/' or d.startswith(m + '/'):
                return m
        return '/'

    # ---- trace -----------------------------------------------------------------------
    def flush(self):
        if self.buf and self.trace_fd is not None:
            data = ''.join(self.buf).encode('ascii')
            self.buf = []
            w = _o['write']
            while data:
                n = w(self.trace_fd, data)
                data = data[n:]

    def record(self, rec):
        self.buf.append(json.dumps(rec) + '\n')
        if self.hist is not None:
            self.hist.update(self.buf[-1].encode('ascii'))

    def die(self, code):
        self.flush()
        os._exit(code)

    # ---- the plan point ----------------------------------------------------------------
    def point(self, op, paths, entries, mut):
        """called before the real syscall; may exit the process or return an errno to inject"""
        plan = self.plan
        seq = self.seq
        if plan.budget is not None and seq > plan.budget:
            self.record([seq, op, paths, entries, 'BUDGET'])
            self.die(124)
        if plan.crash_at is not None and seq == plan.crash_at:
            self.record([seq, op, paths, entries, 'CRASH'])
            self.die(137)
        if plan.interrupt_before is not None and seq == plan.interrupt_before:
            self.record([seq, op, paths, entries, 'INTERRUPT'])
            plan.interrupt_before = None
            raise KeyboardInterrupt()
        inj = None
        for f in plan.faults:
            if f['at'] == seq and (not f.get('op') or f['op'] == op):
                inj = getattr(_errno, f['errno'])
                if f.get('sticky'):
                    d = posixpath.dirname(entries[0]) if entries else None
                    self.sticky.append((op, d, inj))
                break
        if inj is None and self.sticky and entries:
            d = posixpath.dirname(entries[0])
            for sop, sd, se in self.sticky:
                if sop == op and sd == d:
                    inj = se
                    break
        if plan.sched_fd is not None and self._visible(entries):
            self._handoff(seq, op, entries)
        return inj

    def _visible(self, entries):
        if not entries:
            return False
        for e in entries:
            for s in self.plan.shared:
                if e == s or e.startswith(s + '/'):
                    return True
        return False

    def _handoff(self, seq, op, entries):
        self.flush()
        msg = json.dumps({'seq': seq, 'op': op, 'entries': entries,
                          'hist': self.hist.hexdigest()}) + '\n'
        fd = self.plan.sched_fd
        _o['write'](fd, msg.encode('ascii'))
        b = _o['read'](fd, 1)
        if b != b'g':
            os._exit(99)

    # ---- mount rules -------------------------------------------------------------------
    def mount_rule(self, op, entries):
        if op in ('rename', 'replace', 'link') and len(entries) == 2:
            a, b = entries
            if op != 'link' and (a in self.mounts and a != '/' or b in self.mounts and b != '/'):
                return _errno.EBUSY
            if a == '/' or b == '/':
                return _errno.EBUSY
            va = self.volume_of_dir(posixpath.dirname(a))
            vb = self.volume_of_dir(posixpath.dirname(b))
            if va != vb:
                return _errno.EXDEV
        elif op == 'rmdir' and entries:
            if entries[0] in self.mounts:
                return _errno.EBUSY
        return None


def _order(names, plan, key=lambda x: x):
    o = plan.dir_order
    names = sorted(names, key=key)
    if o == 'sorted':
        return names
    if o == 'reverse':
        return names[::-1]
    if isinstance(o, (list, tuple)) and o[0] == 'perm':
        import itertools
        k = o[1]
        n = len(names)
        # k-th permutation in lexicographic order (mod n!)
        out, pool = [], list(names)
        import math
        k %= math.factorial(n) if n else 1
        for i in range(n, 0, -1):
            f = math.factorial(i - 1)
            j, k = divmod(k, f)
            out.append(pool.pop(j))
        return out
    return names


class _DirEntryProxy(object):
    """os.DirEntry whose stat() reports the virtual st_dev (used only when the plan has more than one volume)"""
    __slots__ = ('_e', '_S', '_abs')

    def __init__(self, e, S, base):
        self._e, self._S = e, S
        self._abs = base.rstrip('/') + '/' + os.fsdecode(e.name)

    name = property(lambda self: self._e.name)
    path = property(lambda self: self._e.path)

    def inode(self):
        return self._e.inode()

    def is_dir(self, follow_symlinks=True):
        return self._e.is_dir(follow_symlinks=follow_symlinks)

    def is_file(self, follow_symlinks=True):
        return self._e.is_file(follow_symlinks=follow_symlinks)

    def is_symlink(self):
        return self._e.is_symlink()

    def is_junction(self):
        return False

    def stat(self, follow_symlinks=True):
        st = self._e.stat(follow_symlinks=follow_symlinks)
        S = self._S
        S.inside += 1
        try:
            mode = 'target' if follow_symlinks else 'entry'
            return S.virtual_dev(st, 'stat' if follow_symlinks else 'lstat', [self._abs], None, mode)
        finally:
            S.inside -= 1

    def __fspath__(self):
        return self._e.path

    def __repr__(self):
        return '<DirEntry %r>' % (self._e.name,)


class _ScandirWrapper(object):
    def __init__(self, entries):
        self._it = iter(entries)

    def __iter__(self):
        return self

    def __next__(self):
        return next(self._it)

    def __enter__(self):
        return self

    def __exit__(self, *a):
        self.close()

    def close(self):
        self._it = iter(())


def _result_of(op, r):
    if op in ('stat', 'lstat', 'fstat'):
        return ['ok', r.st_mode]
    if op == 'listdir':
        return ['ok', list(r)]
    if op == 'readlink':
        return ['ok', os.fsdecode(r) if isinstance(r, bytes) else r]
    if op == 'access':
        return ['ok', bool(r)]
    return 'ok'


def _make_wrapper(name, orig):
    is_path = name in PATH_OPS
    argpos, mode = PATH_OPS.get(name, (FD_OPS.get(name), None))
    mut_static = name in MUTATING

    def wrapper(*a, **kw):
        S = _state
        if S is None or S.inside:
            return orig(*a, **kw)
        S.inside += 1
        try:
            S.seq += 1
            seq = S.seq
            paths = []
            entries = None
            mut = mut_static
            extra = None
            if is_path:
                dfd = kw.get('dir_fd')
                for k, i in enumerate(argpos):
                    kwname = ('src', 'dst')[i] if name in ('rename', 'replace', 'link', 'symlink') else 'path'
                    if i < len(a):
                        p = a[i]
                    else:
                        p = kw.get(kwname)
                        if p is None:
                            p = '.'
                    if len(argpos) == 2:
                        dfd = kw.get(('src_dir_fd', 'dst_dir_fd')[k])
                    paths.append(S._abs(p, dfd))
                m = mode
                if kw.get('follow_symlinks') is False:
                    m = 'entry'
                if name == 'open':
                    flags = a[1] if len(a) > 1 else kw.get('flags', 0)
                    extra = flags
                    if flags & (os.O_WRONLY | os.O_RDWR | os.O_CREAT | os.O_TRUNC):
                        mut = True
                    if flags & os.O_NOFOLLOW:
                        m = 'entry'
                if mut or S.plan.resolve == 'all' or S.sticky or name in ('rename', 'replace', 'link', 'rmdir'):
                    entries = [S.entry(p, m) for p in paths]
            else:
                for i in argpos:
                    fd = a[i] if i < len(a) else None
                    paths.append(S.fdpath.get(fd, '<fd%s>' % fd))
                entries = list(paths)
            inj = S.point(name, paths, entries, mut)
            if inj is None and is_path and entries:
                inj = S.mount_rule(name, entries)
            if inj is not None:
                if name == 'close':
                    try:
                        orig(*a, **kw)
                    except OSError:
                        pass
                    S.fdpath.pop(a[0], None)
                S.record([seq, name, paths, entries, _ename(inj)] + ([extra] if extra is not None else []))
                if name == 'access':
                    return False
                raise OSError(inj, os.strerror(inj), *([os.fspath(a[0])] if is_path and a and not isinstance(a[0], int) else []))
            try:
                r = orig(*a, **kw)
            except OSError as e:
                S.record([seq, name, paths, entries, _ename(e.errno)] + ([extra] if extra is not None else []))
                raise
            if name == 'open':
                S.fdpath[r] = entries[0] if entries else S.entry(paths[0], 'target')
            elif name in ('stat', 'lstat', 'fstat') and len(S.mounts) > 1:
                r = S.virtual_dev(r, name, paths, entries, m if is_path else None)
            elif name == 'close':
                S.fdpath.pop(a[0], None)
            elif name == 'listdir':
                r = _order(r, S.plan)
            elif name == 'scandir':
                ents = list(r)
                r.close()
                ents = _order(ents, S.plan, key=lambda e: e.name)
                if len(S.mounts) > 1:
                    ents = [_DirEntryProxy(e, S, paths[0]) for e in ents]
                r = _ScandirWrapper(ents)
            S.record([seq, name, paths, entries, _result_of(name, r)] + ([extra] if extra is not None else []))
            if S.plan.crash_after is not None and seq == S.plan.crash_after:
                S.die(137)
            if S.plan.interrupt_after is not None and seq == S.plan.interrupt_after:
                S.plan.interrupt_after = None
                S.record([seq, 'SIGINT', [], None, 'INTERRUPT'])
                raise KeyboardInterrupt()
            return r
        finally:
            S.inside -= 1

    wrapper.__name__ = name
    wrapper.__vt_orig__ = orig
    return wrapper


def _make_open(orig):
    def vt_open(file, mode='r', *a, **kw):
        S = _state
        if S is None or S.inside or isinstance(file, int):
            return orig(file, mode, *a, **kw)
        S.inside += 1
        try:
            S.seq += 1
            seq = S.seq
            ap = S._abs(file)
            mut = any(c in mode for c in 'wax+')
            entries = None
            if mut or S.plan.resolve == 'all' or S.sticky:
                entries = [S.entry(ap, 'target')]
            inj = S.point('fopen', [ap], entries, mut)
            if inj is not None:
                S.record([seq, 'fopen', [ap], entries, _ename(inj), mode])
                raise OSError(inj, os.strerror(inj), file)
            try:
                f = orig(file, mode, *a, **kw)
            except OSError as e:
                S.record([seq, 'fopen', [ap], entries, _ename(e.errno), mode])
                raise
            try:
                S.fdpath[f.fileno()] = entries[0] if entries else ap
            except Exception:
                pass
            S.record([seq, 'fopen', [ap], entries, 'ok', mode])
            if S.plan.crash_after is not None and seq == S.plan.crash_after:
                S.die(137)
            if S.plan.interrupt_after is not None and seq == S.plan.interrupt_after:
                S.plan.interrupt_after = None
                S.record([seq, 'SIGINT', [], None, 'INTERRUPT'])
                f.close()
                raise KeyboardInterrupt()
            return f
        finally:
            S.inside -= 1
    vt_open.__vt_orig__ = orig
    return vt_open


HOOKED = sorted(set(PATH_OPS) | set(FD_OPS))


def install(plan, trace_fd):
    """install all seams for this process (called in the child, after chroot)"""
    global _state
    S = Shim(plan, trace_fd)
    # non-syscall seams first (present in plain mode too)
    import random
    import psutil
    from collections import namedtuple
    part = namedtuple('sdiskpart', 'device mountpoint fstype opts')
    mounts = list(plan.mounts)
    if '/' not in mounts:
        mounts.insert(0, '/')

    def disk_partitions(all=False):
        return [part('/dev/vt%d' % i, m, 'ext4', 'rw') for i, m in enumerate(mounts)]
    psutil.disk_partitions = disk_partitions

    def randint(a, b):
        if not isinstance(a, int) or not isinstance(b, int):
            raise TypeError("randint() arguments must be integers, got %r and %r" % (a, b))
        if a > b:
            raise ValueError("empty range for randint(%d, %d)" % (a, b))
        if S.rand_i < len(plan.randints):
            v = plan.randints[S.rand_i]
        else:
            v = 40000 + S.rand_i
        S.rand_i += 1
        return v
    random.randint = randint
    os.getuid = lambda: plan.uid
    os.geteuid = lambda: plan.uid
    os.getpid = lambda: plan.pid
    real_isatty = os.isatty
    os.isatty = lambda fd: bool(plan.isatty) if fd == 0 else real_isatty(fd)
    if not plan.hooks:
        _state = None
        return S
    for name in HOOKED:
        orig = getattr(os, name, None)
        if orig is None:
            continue
        orig = getattr(orig, '__vt_orig__', orig)
        _o[name] = orig
        w = _make_wrapper(name, orig)
        for sup in (os.supports_dir_fd, os.supports_fd, os.supports_follow_symlinks,
                    os.supports_effective_ids):
            if orig in sup:
                sup.add(w)
        setattr(os, name, w)
    oo = getattr(builtins.open, '__vt_orig__', builtins.open)
    _o['fopen'] = oo
    w = _make_open(oo)
    builtins.open = w
    io.open = w

    def ismount(path):
        try:
            st = os.lstat(path)          # hooked: one observable op
        except (OSError, ValueError):
            return False
        if _stat.S_ISLNK(st.st_mode):
            return False
        S.inside += 1
        try:
            p = os.fspath(path)
            if isinstance(p, bytes):
                p = os.fsdecode(p)
            return posixpath.realpath(p) in S.mounts
        finally:
            S.inside -= 1
    posixpath.ismount = ismount
    _state = S
    return S


def finish():
    S = _state
    if S is not None:
        S.flush()


for _n in HOOKED:
    if hasattr(os, _n):
        _o[_n] = getattr(getattr(os, _n), '__vt_orig__', getattr(os, _n))
