"""Execution cell: fork -> chroot(sandbox) -> run the real trash-cli entry script.

One `Sandbox` = one materialised world on tmpfs.  `Sandbox.run()` executes ONE real command in
a forked child that chroots into the world, installs the interposition layer with the given
plan and executes the text of $VT_REPO/<script> with __name__ == '__main__'.
"""
import builtins
import io
import json
import os
import shutil
import signal
import sys
import traceback

REPO = os.environ.get('VT_REPO', '/repo')
SCRIPTS = ['trash-put', 'trash-list', 'trash-restore', 'trash-empty', 'trash-rm']
WATCHDOG_S = 30

_inited = False
_code = {}
_base = None
_base_pid = None
_count = 0


class HarnessError(Exception):
    pass


class NonTermination(Exception):
    """the command under test exhausted the default operation budget (it would run forever)"""


DEFAULT_BUDGET = 20000      # hooked operations per command; the longest legitimate run in any check is < 1500


def _install_fake_datetime():
    import datetime as _dt
    if getattr(_dt.datetime, '_vt_fake', False):
        return
    real = _dt.datetime

    class datetime(real):
        _vt_fake = True
        _vt_now = None       # a real datetime or None
        _vt_step = 0         # microseconds added per now() call
        _vt_calls = 0

        @classmethod
        def now(cls, tz=None):
            if cls._vt_now is None:
                return real.now(tz)
            n = cls._vt_now + _dt.timedelta(microseconds=cls._vt_step * cls._vt_calls)
            cls._vt_calls += 1
            return cls(n.year, n.month, n.day, n.hour, n.minute, n.second, n.microsecond)

        @classmethod
        def today(cls):
            return cls.now()

        @classmethod
        def utcnow(cls):
            # the sandbox's local zone is UTC+3: code that confuses utcnow() with now() writes a visibly wrong time
            n = cls.now()
            if cls._vt_now is None:
                return real.utcnow()
            m = n - _dt.timedelta(hours=3)
            return cls(m.year, m.month, m.day, m.hour, m.minute, m.second, m.microsecond)
    datetime.__qualname__ = 'datetime'
    datetime.__module__ = 'datetime'
    _dt.datetime = datetime
    _dt._vt_real_datetime = real


def init(repo=None):
    """per-process initialisation: seams that must precede the import of trashcli, the import of
    every trashcli module from the tree under test, compilation of the entry scripts"""
    global _inited, REPO, _base
    if _inited:
        return
    if repo:
        REPO = repo
    _install_fake_datetime()
    if sys.path[0] != REPO:
        sys.path.insert(0, REPO)
    import pkgutil
    import trashcli
    if not os.path.realpath(trashcli.__file__).startswith(os.path.realpath(REPO) + '/'):
        raise HarnessError('trashcli imported from %s, not from %s' % (trashcli.__file__, REPO))
    for m in pkgutil.walk_packages(trashcli.__path__, 'trashcli.'):
        try:
            __import__(m.name)
        except Exception:       # a module broken by a mutant must show up when the command runs
            pass
    # stdlib modules that are imported lazily (after the chroot they could not be found)
    for name in ('_strptime', 'traceback', 'linecache', 'tokenize', 'encodings.idna',
                 'encodings.utf_8', 'encodings.latin_1', 'encodings.ascii', 'argparse', 'gettext',
                 'locale', 'textwrap', 'shutil', 'fnmatch', 'glob', 'psutil', 'pwd', 'grp',
                 'random', 'logging', 'six', 'six.moves', 'six.moves.urllib',
                 'six.moves.urllib.parse', 'urllib.parse', 'pprint', 'difflib', 'stat',
                 'tempfile', 'zlib', 'bz2', 'lzma', 'unicodedata', 'stringprep', 'warnings',
                 'contextlib', 'collections.abc', 'typing', 'enum', 'abc', 'codecs', 'struct',
                 'calendar', 'time', 'math', 'itertools', 'hashlib', 'inspect', 'dis', 'ast',
                 'keyword', 'token', 'reprlib', 'weakref', 'copy', 'types', 'functools',
                 'operator', 're', 'sre_compile', 'sre_parse', 'sre_constants', 'string',
                 'threading', 'subprocess', 'errno', 'select', 'selectors', 'shlex', 'getopt',
                 'readline', 'rlcompleter', 'importlib.resources', 'importlib.metadata',
                 'encodings.unicode_escape', 'encodings.raw_unicode_escape', 'encodings.utf_16',
                 'encodings.utf_32', 'encodings.cp437', 'encodings.utf_8_sig'):
        try:
            __import__(name)
        except Exception:
            pass
    import six.moves
    six.moves.input  # force the lazy attribute
    import six.moves.urllib.parse as _p
    _p.quote, _p.unquote
    import datetime as _dt
    _dt.datetime.strptime('2000-01-01T00:00:00', '%Y-%m-%dT%H:%M:%S')
    for s in SCRIPTS:
        path = os.path.join(REPO, s)
        with open(path) as f:
            _code[s] = compile(f.read(), path, 'exec')
    from . import shim  # noqa  (captures original os functions)
    _inited = True


def base_dir():
    global _base, _base_pid
    if _base is None or _base_pid != os.getpid():
        _base_pid = os.getpid()
        top = '/dev/shm' if os.path.isdir('/dev/shm') and os.access('/dev/shm', os.W_OK) else \
            os.environ.get('TMPDIR', '/var/tmp')
        _base = os.path.join(top, 'vt-%d-%d' % (os.getppid(), os.getpid()))
        shutil.rmtree(_base, ignore_errors=True)
        os.makedirs(_base)
    return _base


def sweep_stale():
    """remove sandboxes of dead runs"""
    for top in ('/dev/shm', os.environ.get('TMPDIR', '/var/tmp')):
        try:
            names = os.listdir(top)
        except OSError:
            continue
        for n in names:
            if not n.startswith('vt-'):
                continue
            parts = n.split('-')
            try:
                pids = [int(x) for x in parts[1:3]]
            except ValueError:
                continue
            if not any(os.path.exists('/proc/%d' % p) for p in pids):
                shutil.rmtree(os.path.join(top, n), ignore_errors=True)


class Result(dict):
    __getattr__ = dict.get

    @property
    def mut_ops(self):
        return [t for t in self['trace'] if is_mutating(t)]


def is_mutating(t):
    from . import shim
    op = t[1]
    if op in shim.MUTATING:
        return True
    if op == 'open':
        fl = t[5] if len(t) > 5 else 0
        return bool(fl & (os.O_WRONLY | os.O_RDWR | os.O_CREAT | os.O_TRUNC))
    if op == 'fopen':
        return any(c in (t[5] if len(t) > 5 else 'r') for c in 'wax+')
    return False


def ok_of(t):
    r = t[4]
    return r == 'ok' or (isinstance(r, list) and r and r[0] == 'ok')


class Sandbox(object):
    def __init__(self, spec):
        global _count
        init()
        from . import world
        _count += 1
        self.spec = spec
        self.dir = os.path.join(base_dir(), 's%d' % _count)
        self.root = os.path.join(self.dir, 'root')
        os.makedirs(self.root)
        os.chmod(self.root, 0o755)
        world.build(self.root, spec['nodes'])
        self.nrun = 0

    def snapshot(self, top='/'):
        from . import world
        return world.snapshot(self.root, top)

    def destroy(self):
        shutil.rmtree(self.dir, ignore_errors=True)

    def __enter__(self):
        return self

    def __exit__(self, *a):
        self.destroy()

    # -----------------------------------------------------------------------------------------
    def spawn(self, argv, stdin=None, env=None, cwd=None, plan=None, now=None, close_fds=(), stdin_fd=None, stdout_fd=None):
        """fork the child; returns (pid, files) -- used directly by the scheduler (E5)"""
        spec = self.spec
        self.nrun += 1
        tag = os.path.join(self.dir, 'r%d' % self.nrun)
        files = {k: tag + '.' + k for k in ('in', 'out', 'err', 'trace')}
        with open(files['in'], 'wb') as f:
            if stdin:
                f.write(stdin.encode('utf-8', 'surrogateescape') if isinstance(stdin, str) else stdin)
        p = dict(plan or {})
        p.setdefault('mounts', spec.get('mounts', ['/']))
        p.setdefault('uid', spec.get('uid', 0))
        self._own_budget = 'budget' in p
        if p.get('hooks', True):
            p.setdefault('budget', DEFAULT_BUDGET)
        if os.environ.get('VT_PLAIN') == '1' and list(p['mounts']) == ['/'] and not (
                p.get('faults') or p.get('crash_at') or p.get('sched_fd') or p.get('dir_order')):
            p['hooks'] = False           # T1: same cell, no os hooks (single-volume worlds only)
        env = dict(spec.get('env', {}) if env is None else env)
        env.setdefault('LC_ALL', 'C.UTF-8')
        env.setdefault('PYTHONHASHSEED', '0')
        cwd = cwd or spec.get('cwd', '/')
        now = now or spec.get('now')
        script = os.path.basename(argv[0])
        pid = os.fork()
        if pid:
            return pid, files
        # ---------------- child ----------------
        code = 70
        try:
            signal.alarm(WATCHDOG_S)
            for fd in close_fds:
                try:
                    os.close(fd)
                except OSError:
                    pass
            fin = stdin_fd if stdin_fd is not None else os.open(files['in'], os.O_RDONLY)
            fout = stdout_fd if stdout_fd is not None else os.open(files['out'], os.O_WRONLY | os.O_CREAT | os.O_TRUNC, 0o600)
            ferr = os.open(files['err'], os.O_WRONLY | os.O_CREAT | os.O_TRUNC, 0o600)
            ftr = os.open(files['trace'], os.O_WRONLY | os.O_CREAT | os.O_TRUNC, 0o600)
            os.chroot(self.root)
            os.chdir(cwd)
            os.umask(0o022)
            os.dup2(fin, 0)
            os.dup2(fout, 1)
            os.dup2(ferr, 2)
            for fd in (fin, fout, ferr):
                if fd > 2:
                    os.close(fd)
            os.environ.clear()
            os.environ.update(env)
            old = (sys.stdout, sys.stderr)
            sys.stdin = io.open(0, 'r', encoding='utf-8', errors='surrogateescape', closefd=False)
            sys.stdout = io.open(1, 'w', encoding='utf-8', errors='strict', closefd=False)          # as CPython does under a UTF-8 locale
            sys.stderr = io.open(2, 'w', encoding='utf-8', errors='backslashreplace',
                                 closefd=False, buffering=1)
            import logging
            for lg in [logging.root] + [l for l in logging.root.manager.loggerDict.values()
                                        if isinstance(l, logging.Logger)]:
                for h in lg.handlers:
                    if isinstance(h, logging.StreamHandler) and h.stream in old:
                        h.setStream(sys.stderr)
            sys.argv = list(argv)
            import datetime as _dt
            if now:
                real = _dt._vt_real_datetime
                if '.' in now:
                    _dt.datetime._vt_now = real.strptime(now, '%Y-%m-%dT%H:%M:%S.%f')
                else:
                    _dt.datetime._vt_now = real.strptime(now, '%Y-%m-%dT%H:%M:%S')
                _dt.datetime._vt_step = p.get('clock_step_us', 0)
                _dt.datetime._vt_calls = 0
            from . import shim
            shim.install(shim.Plan(p), ftr)
            g = {'__name__': '__main__', '__builtins__': builtins, '__file__': '/usr/bin/' + script}
            try:
                exec(_code[script], g)
                code = 0
            except SystemExit as e:
                c = e.code
                if c is None:
                    code = 0
                elif isinstance(c, int):
                    code = c & 0xff
                else:
                    try:
                        sys.stderr.write(str(c) + '\n')
                    except Exception:
                        pass
                    code = 1
            except BaseException:
                try:
                    traceback.print_exc()
                except Exception:
                    pass
                code = 1
            try:
                sys.stdout.flush()
            except Exception:
                code = code or 120
            try:
                sys.stderr.flush()
            except Exception:
                pass
            shim.finish()
        except BaseException:
            try:
                os.write(2, ('VT-CHILD-FAILURE\n' + traceback.format_exc()).encode())
            except Exception:
                pass
            code = 70
        finally:
            os._exit(code)

    def collect(self, pid, files, argv=None):
        _, status = os.waitpid(pid, 0)
        r = self.result(status, files)
        if r.budget and not getattr(self, '_own_budget', False):
            raise NonTermination('%s did not finish within %d file-system operations; last operations: %r' % (
                ' '.join(argv or []), DEFAULT_BUDGET, [t[1:3] for t in r.trace[-4:]]))
        return r

    def result(self, status, files):
        r = Result()
        if os.WIFSIGNALED(status):
            r['signal'] = os.WTERMSIG(status)
            r['exit'] = 128 + r['signal']
        else:
            r['signal'] = None
            r['exit'] = os.WEXITSTATUS(status)
        for k in ('out', 'err'):
            try:
                with open(files[k], 'rb') as f:
                    r[k] = f.read().decode('utf-8', 'surrogateescape')
            except OSError:
                r[k] = ''
        tr = []
        try:
            with open(files['trace'], 'rb') as f:
                for line in f:
                    tr.append(json.loads(line))
        except OSError:
            pass
        r['trace'] = tr
        last = tr[-1][4] if tr else None
        r['crashed'] = r['exit'] == 137 and last == 'CRASH' or (r['exit'] == 137 and r['signal'] is None)
        r['budget'] = r['exit'] == 124 and last == 'BUDGET'
        for k in files.values():
            try:
                os.unlink(k)
            except OSError:
                pass
        if r['signal'] is not None:
            raise HarnessError('HARNESS-TIMEOUT' if r['signal'] == signal.SIGALRM else
                               'HARNESS-CHILD-SIGNAL %s' % r['signal'])
        if r['exit'] == 70 and 'VT-CHILD-FAILURE' in r['err']:
            raise HarnessError('HARNESS-CHILD-FAILURE ' + r['err'][-600:])
        if 'ModuleNotFoundError' in r['err'] or 'No module named' in r['err']:
            raise HarnessError('HARNESS-LAZY-IMPORT ' + r['err'][-400:])
        return r

    def run(self, argv, **kw):
        if isinstance(argv, str):
            argv = argv.split()
        pid, files = self.spawn(argv, **kw)
        return self.collect(pid, files, argv)


def _probe_denote(args):
    """R7: what directory entry does each argument spelling name (kernel truth, inside the chroot)"""
    import stat as st
    out = []
    for s in args:
        d = {'arg': s}
        try:
            os.lstat(s)
            d['resolvable'] = True
        except (OSError, ValueError):
            d['resolvable'] = False
        q = s.rstrip('/') or ('/' if s.startswith('/') else '')
        if q == '':
            d.update(entry=None, dot=False)
            out.append(d)
            continue
        par, b = os.path.split(q)
        if b in ('', '.', '..'):
            d['dot'] = True
            d['entry'] = os.path.realpath(q)
        else:
            d['dot'] = False
            d['entry'] = os.path.join(os.path.realpath(par or '.'), b)
        try:
            m = os.lstat(d['entry']).st_mode
            d['kind'] = 'l' if st.S_ISLNK(m) else 'd' if st.S_ISDIR(m) else 'f'
        except OSError:
            d['kind'] = None
        out.append(d)
    return out


def _sandbox_probe(self, fn, arg, cwd=None):
    """run fn(arg) in a forked child chrooted into the world (no shim); JSON result"""
    self.nrun += 1
    path = os.path.join(self.dir, 'p%d.json' % self.nrun)
    pid = os.fork()
    if pid == 0:
        code = 1
        try:
            fd = os.open(path, os.O_WRONLY | os.O_CREAT | os.O_TRUNC, 0o600)
            os.chroot(self.root)
            os.chdir(cwd or self.spec.get('cwd', '/'))
            data = json.dumps(fn(arg)).encode()
            os.write(fd, data)
            code = 0
        finally:
            os._exit(code)
    _, status = os.waitpid(pid, 0)
    if status != 0:
        raise HarnessError('HARNESS-PROBE-FAILED')
    with open(path) as f:
        r = json.load(f)
    os.unlink(path)
    return r


Sandbox.probe = _sandbox_probe
Sandbox.denote = lambda self, args, cwd=None: self.probe(_probe_denote, list(args), cwd)


def _run_dialogue(self, argv, steps, quiet_s=0.15, **kw):
    """run a command whose stdin/stdout are pipes and talk to it: steps = [(action, reply)], where action is None or a
    callable(sandbox) executed while the command is blocked at its prompt (the environment changes under its feet),
    reply is the line to send (None = close stdin).  The prompt is recognised by output that stops without a newline."""
    import select
    in_r, in_w = os.pipe()
    out_r, out_w = os.pipe()
    pid, files = self.spawn(argv, stdin_fd=in_r, stdout_fd=out_w, close_fds=(in_w, out_r), **kw)
    os.close(in_r)
    os.close(out_w)
    out = b''

    def read_until_quiet():
        nonlocal out
        got_any = False
        while True:
            r, _, _ = select.select([out_r], [], [], 5.0 if not got_any else quiet_s)
            if not r:
                return True
            chunk = os.read(out_r, 65536)
            if not chunk:
                return False
            out += chunk
            got_any = True
    alive = True
    for action, reply in steps:
        if alive:
            alive = read_until_quiet()
        if not alive:
            break
        if action is not None:
            action(self)
        if reply is None:
            break
        os.write(in_w, (reply + '\n').encode('utf-8', 'surrogateescape'))
    os.close(in_w)
    while True:
        chunk = os.read(out_r, 65536)
        if not chunk:
            break
        out += chunk
    os.close(out_r)
    _, status = os.waitpid(pid, 0)
    with open(files['out'], 'wb') as f:
        f.write(out)
    return self.result(status, files)


Sandbox.run_dialogue = _run_dialogue
