"""T2: the shim's virtual mount table vs real kernel mounts.

Multi-volume scenario classes are executed twice: (a) hooked, with the virtual mount table; (b) in a private mount
namespace with REAL tmpfs mounts at the same mount points, no os hooks, real os.path.ismount (only
psutil.disk_partitions substituted).  Exit status, stderr and the canonical after-image must be equal."""
import ctypes
import json
import os
import sys

from .. import cell, scen, world

MS_REC, MS_PRIVATE = 16384, 1 << 18


def _scenarios():
    out = []
    M = ['/', '/mnt/v1', '/mnt/v2']

    def base():
        W = scen.base_world(mounts=M, cwd='/home/u/w')
        W.dir('/mnt/v1/w').dir('/mnt/v2/w')
        return W
    W = base(); W.file('/mnt/v1/w/f', 'F\n')
    out.append(('put-other-volume', W, [(['trash-put', '/mnt/v1/w/f'], None, {})]))
    W = base(); W.file('/mnt/v1/w/f', 'F\n').dir('/mnt/v1/.Trash', mode=0o1777)
    out.append(('put-sticky-top', W, [(['trash-put', '-v', '/mnt/v1/w/f'], None, {})]))
    W = base(); scen.add_entry(W, '/mnt/v1/w/t', 'tree'); W.file('/mnt/v1/.Trash', 'x').file('/mnt/v1/.Trash-0', 'x')
    out.append(('home-fallback-copy', W, [(['trash-put', '--home-fallback', '/mnt/v1/w/t'], None, {'TRASH_ENABLE_HOME_FALLBACK': '1'}),
                                          (['trash-list'], None, {}), (['trash-restore', '/'], '0\n', {})]))
    W = base(); W.file('/mnt/v2/w/keep', 'k\n')
    out.append(('put-mount-point', W, [(['trash-put', '/mnt/v2'], None, {})]))
    W = base(); W.file('/mnt/v1/w/f', 'F\n').link('/home/u/w/xl', '/mnt/v1/w')
    out.append(('put-via-cross-volume-symlink', W, [(['trash-put', 'xl/f'], None, {}), (['trash-list'], None, {})]))
    W = base(); W.file('/home/u/w/f', 'F\n')
    out.append(('trash-dir-other-volume', W, [(['trash-put', '--trash-dir', '/mnt/v2/td', 'f'], None, {})]))
    W = scen.base_world(mounts=['/', '/mnt/v1', '/mnt/v1/inner'], cwd='/'); W.dir('/mnt/v1/inner/w').file('/mnt/v1/inner/w/f', 'F\n')
    out.append(('nested-mounts', W, [(['trash-put', '/mnt/v1/inner/w/f'], None, {}), (['trash-list'], None, {}), (['trash-empty'], None, {})]))
    W = base(); W.file('/mnt/v1/w/a', 'A\n').file('/home/u/w/a', 'B\n')
    out.append(('two-volumes-rm', W, [(['trash-put', '/mnt/v1/w/a', 'a'], None, {}), (['trash-rm', 'a'], None, {}), (['trash-list'], None, {})]))
    return out


def _run(W, cmds, real):
    spec = W.spec()
    res = []
    if not real:
        with cell.Sandbox(spec) as sb:
            for argv, stdin, env in cmds:
                r = sb.run(argv, stdin=stdin, env=dict(spec['env'], **env), now='2024-01-01T00:00:00')
                res.append([r.exit, r.err])
            res.append(world.canon_hash(sb.snapshot()))
        return res
    # real mounts: everything in a child that owns a private mount namespace
    rd, wr = os.pipe()
    pid = os.fork()
    if pid == 0:
        code = 3
        try:
            os.close(rd)
            os.unshare(os.CLONE_NEWNS)
            libc = ctypes.CDLL(None, use_errno=True)
            if libc.mount(b'none', b'/', None, MS_REC | MS_PRIVATE, None) != 0:
                raise OSError(ctypes.get_errno(), 'make-private')
            mounts = [m for m in spec['mounts'] if m != '/']
            nodes = spec['nodes']
            spec2 = dict(spec, nodes=[])
            sb = cell.Sandbox(spec2)
            for m in sorted(mounts, key=len):
                os.makedirs(sb.root + m, exist_ok=True)
                if libc.mount(b'tmpfs', (sb.root + m).encode(), b'tmpfs', 0, b'mode=0755') != 0:
                    raise OSError(ctypes.get_errno(), 'mount tmpfs')
            world.build(sb.root, nodes)
            for argv, stdin, env in cmds:
                r = sb.run(argv, stdin=stdin, env=dict(spec['env'], **env), now='2024-01-01T00:00:00', plan={'hooks': False})
                res.append([r.exit, r.err])
            res.append(world.canon_hash(sb.snapshot()))
            os.write(wr, json.dumps(res).encode())
            for m in sorted(mounts, key=len, reverse=True):
                libc.umount2((sb.root + m).encode(), 2)
            sb.destroy()
            code = 0
        except PermissionError:
            code = 4
        except BaseException as e:
            os.write(2, ('T2 child: %r\n' % (e,)).encode())
            code = 3
        finally:
            os._exit(code)
    os.close(wr)
    data = b''
    while True:
        b = os.read(rd, 65536)
        if not b:
            break
        data += b
    os.close(rd)
    _, st = os.waitpid(pid, 0)
    if os.WEXITSTATUS(st) == 4:
        return None
    if st != 0:
        raise AssertionError('T2 real-mount run failed (status %s)' % st)
    return json.loads(data)


def test_t2_virtual_mounts_agree_with_kernel_mounts():
    if not hasattr(os, 'unshare'):
        print('T2 skipped: os.unshare not available')
        return
    n = 0
    for name, W, cmds in _scenarios():
        a = _run(W, cmds, real=False)
        b = _run(W, cmds, real=True)
        if b is None:
            print('T2 skipped: mount(2) not permitted in this sandbox')
            return
        a = json.loads(json.dumps(a))
        assert a == b, 'T2 %s: virtual mount table and kernel mounts disagree:\nvirtual=%r\nkernel =%r' % (name, a, b)
        n += 1
    print('T2: %d multi-volume scenarios agree between the virtual mount table and real tmpfs mounts' % n)
