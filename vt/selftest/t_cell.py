"""T1 (shim transparency on a single-volume world) and T4 (real CLI through subprocess)."""
import os
import shutil
import subprocess
import sys
import tempfile

from .. import cell, scen, world


def _scenario(plan):
    W = scen.base_world()
    for k in scen.KINDS:
        scen.add_entry(W, '/home/u/w/' + k, k)
    with cell.Sandbox(W.spec()) as sb:
        outs = []
        outs.append(sb.run(['trash-put', '-v'] + scen.KINDS + ['missing'], plan=plan, now='2024-01-01T00:00:00'))
        outs.append(sb.run(['trash-list'], plan=plan))
        outs.append(sb.run(['trash-restore', '--sort', 'path'], stdin='0,2\n', plan=plan, cwd='/home/u/w'))
        outs.append(sb.run(['trash-rm', 'l*'], plan=plan))
        outs.append(sb.run(['trash-empty', '--dry-run'], plan=plan))
        outs.append(sb.run(['trash-empty'], plan=plan))
        snap = sb.snapshot()
    return [(r.exit, sorted(r.out.splitlines()), r.err) for r in outs], world.canon_hash(snap)


def test_t1_transparency():
    a = _scenario({'hooks': True})
    b = _scenario({'hooks': False})
    assert a == b, 'hooked and plain runs differ:\n%r\n%r' % (a, b)
    assert a[0][0][0] != 0 and 'missing' in a[0][0][2]


def test_t4_subprocess():
    """same commands through subprocess + the real scripts in a tmpdir world (no chroot, no shim)"""
    d = tempfile.mkdtemp(prefix='vt-t4-', dir='/dev/shm' if os.path.isdir('/dev/shm') else None)
    try:
        home = os.path.join(d, 'home')
        os.makedirs(os.path.join(home, 'w'))
        with open(os.path.join(home, 'w', 'a'), 'w') as f:
            f.write('x')
        env = {'HOME': home, 'XDG_DATA_HOME': os.path.join(home, 'xdg'), 'PATH': '/usr/bin:/bin',
               'TRASH_VOLUMES': d, 'LC_ALL': 'C.UTF-8'}
        py = sys.executable

        def run(*argv, **kw):
            return subprocess.run([py, os.path.join(cell.REPO, argv[0])] + list(argv[1:]), env=env,
                                  cwd=os.path.join(home, 'w'), capture_output=True, text=True, **kw)
        r = run('trash-put', 'a')
        assert r.returncode == 0, r.stderr
        r = run('trash-list')
        assert r.stdout.strip().endswith(os.path.join(home, 'w', 'a')), r.stdout
        # the same through the cell
        W = scen.base_world(env={'HOME': '/home/u', 'XDG_DATA_HOME': '/home/u/xdg'})
        W.file('/home/u/w/a', 'x')
        with cell.Sandbox(W.spec()) as sb:
            r1 = sb.run(['trash-put', 'a'])
            r2 = sb.run(['trash-list'])
            assert r1.exit == 0 and r2.out.strip().endswith('/home/u/w/a')
            assert os.path.exists(sb.root + '/home/u/xdg/Trash/files/a')
        assert os.path.exists(os.path.join(home, 'xdg/Trash/files/a'))
    finally:
        shutil.rmtree(d, ignore_errors=True)


def test_t1_transparency_on_check_cases():
    """T1 on real check cases: single-volume cases of several checks give the same verdict and outcome class with
    and without the os-level hooks (VT_PLAIN=1 turns the hooks off for worlds whose mount table is just '/')"""
    import importlib
    import random
    picked = 0
    for name in ('c06', 'c13'):      # checks whose worlds have the single mount '/' (plain mode has no virtual mounts)
        mod = importlib.import_module('vt.checks.' + name)
        cases = mod.cases('quick')
        rnd = random.Random(7)
        for c in rnd.sample(cases, 40):
            os.environ.pop('VT_PLAIN', None)
            a = mod.run_case(dict(c))
            os.environ['VT_PLAIN'] = '1'
            try:
                b = mod.run_case(dict(c))
            finally:
                os.environ.pop('VT_PLAIN', None)
            assert (a.get('verdict'), a.get('klass'), a.get('sig')) == (b.get('verdict'), b.get('klass'), b.get('sig')), \
                'T1 mismatch in %s case %r:\nhooked=%r\nplain =%r' % (name, c, a, b)
            picked += 1
    print('T1: %d check cases agree between hooked and plain execution' % picked)
