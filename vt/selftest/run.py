"""Harness self-tests: reference oracles, shim transparency (T1), real-CLI spot check (T4)."""
import sys


def main():
    from . import t_refs, t_cell, t_mounts
    n = 0
    for mod in (t_refs, t_cell, t_mounts):
        for name in sorted(dir(mod)):
            if name.startswith('test_'):
                getattr(mod, name)()
                n += 1
    print('selftest: %d tests ok' % n)
    return 0


if __name__ == '__main__':
    sys.exit(main())
