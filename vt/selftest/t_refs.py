from ..ref import trashinfo as R1


def test_unquote():
    assert R1.unquote(b'a%41%2f%zz%4') == b'aA/%zz%4'
    assert R1.unquote(b'%') == b'%' and R1.unquote(b'%41') == b'A' and R1.unquote(b'%4') == b'%4'
    assert R1.unquote(b'%E6%97%A5') == '日'.encode()


def test_escaped():
    assert R1.well_escaped(b'/a%20b') and not R1.well_escaped(b'a%') and not R1.well_escaped(b'a\x80')
    assert not R1.well_escaped(b'a\nb') and not R1.well_escaped(b'a%4')


def test_parse():
    p = R1.parse(b'[Trash Info]\nPath=/a%20b\nPath=/c\nDeletionDate=2024-02-30T00:00:00\n')
    assert p['path'] == b'/a b' and not p['date_valid'] and p['header']
    assert R1.conformant(b'[Trash Info]\nPath=/a%20b\nDeletionDate=2024-02-28T00:00:00\n') == []
    assert R1.conformant(b'[Trash Info]\nPath=/a b\nDeletionDate=2024-02-28T00:00:00\n') == []
    assert R1.conformant(b'[Trash Info]\nPath=/a\nb\nDeletionDate=2024-02-28T00:00:00\n')


def test_glob_against_fnmatch():
    """R4 must coincide with fnmatchcase (the documented semantics) on a wide token product"""
    import fnmatch
    import itertools
    from ..ref import glob as R4
    toks = ['a', 'A', 'b', '.', '*', '?', '[ab]', '[!a]', '[', ']', '!', '[a-b]', '/']
    names = ['', 'a', 'A', 'b', 'ab', 'a.b', 'a*', '[ab]', '[', 'a/b', '/a', 'ba', 'aa', ']', '!']
    n = 0
    for k in (1, 2, 3):
        for t in itertools.product(toks, repeat=k):
            pat = ''.join(t)
            for s in names:
                assert R4.match(pat, s) == fnmatch.fnmatchcase(s, pat), (pat, s)
                n += 1
    assert n > 30000
    assert R4.match('/home/*/a', '/home/u/w/a') and not R4.match('/home/*/a', '/home/u/w/a', star_slash=False)


def test_indexes():
    from ..ref import indexes as R5
    assert R5.judge('0', 1) == ('valid', {0})
    assert R5.judge('0-2,3', 4) == ('valid', {0, 1, 2, 3})
    assert R5.judge('4', 4)[0] == 'invalid' and R5.judge('a', 4)[0] == 'invalid' and R5.judge('1-', 4)[0] == 'invalid'
    assert R5.judge(' 1', 4) == ('dontcare', {1}) and R5.judge('+1', 4) == ('dontcare', {1})
    assert R5.judge('3-1', 4) == ('reversed', set()) and R5.judge('', 4)[0] == 'empty'
    assert R5.judge('1-2-3', 4)[0] == 'invalid' and R5.judge('0,,1', 4)[0] == 'invalid'
    assert R5.judge('-1', 4)[0] == 'invalid'
