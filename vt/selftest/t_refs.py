from ..ref import trashinfo as R1


def test_unquote():
    assert R1.unquote(b'a%41%2f%zz%4') == b'aA/%zz%4'
    assert R1.unquote(b'%') == b'%' and R1.unquote(b'%41') == b'A' and R1.unquote(b'%4') == b'%4'
    assert R1.unquote(b'%E6%97%A5') == '日'.encode()


def test_escaped():
    assert R1.well_escaped(b'/a%20b') and not R1.well_escaped(b'a%') and not R1.well_escaped(b'a\x80')
    assert not R1.well_escaped(b'a\nb') and not R1.well_escaped(b'a%4')


def test_parse():
    p = R1.parse(b'[Trash Info]\nPath=/a%20b\nPath=/c\nDeletionDate=2024-02-30T00:00:00\n')
    assert p['path'] == b'/a b' and not p['date_valid'] and p['header']
    assert R1.conformant(b'[Trash Info]\nPath=/a%20b\nDeletionDate=2024-02-28T00:00:00\n') == []
    assert R1.conformant(b'[Trash Info]\nPath=/a b\nDeletionDate=2024-02-28T00:00:00\n') == []
    assert R1.conformant(b'[Trash Info]\nPath=/a\nb\nDeletionDate=2024-02-28T00:00:00\n')
