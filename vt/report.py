"""Evidence, known findings, replay files, verdict lines and exit codes."""
import json
import os
import sys
import time

T_START = time.time()
VERIF = os.path.dirname(os.path.dirname(os.path.abspath(__file__)))
FINDINGS = os.path.join(VERIF, 'known_findings.json')


def load_findings(pid):
    try:
        with open(FINDINGS) as f:
            data = json.load(f)
    except OSError:
        return {}, []
    open_, fixed = {}, []
    for e in data.get('findings', []):
        if e.get('property') != pid:
            continue
        if e.get('status') == 'open':
            open_[e['signature']] = e
        else:
            fixed.append(e)
    return open_, fixed


class Report(object):
    def __init__(self, pid, tier, seed, level):
        self.pid, self.tier, self.seed, self.level = pid, tier, seed, level
        self.t0 = T_START
        self.evaluations = 0
        self.classes = {}          # klass -> count
        self.nontrivial = set()    # distinct nontrivial keys
        self.viol = {}             # sig -> (case, outcome) first witness
        self.viol_count = {}
        self.dontcare = 0
        self.samples = []
        self.harness = []
        self.extra = {}
        self.assumptions = []
        self.digest = __import__('hashlib').sha1()

    def add(self, case, out):
        """out: {'verdict': ok|viol|dontcare, 'klass': str, 'nontrivial': bool|key, 'sig': str,
                 'detail': ...}"""
        self.evaluations += out.get('execs', 1)
        if 'harness' in out:
            self.harness.append((case, out['harness']))
            return
        k = out.get('klass', out['verdict'])
        self.classes[k] = self.classes.get(k, 0) + 1
        nt = out.get('nontrivial')
        if nt:
            self.nontrivial.add(k if nt is True else str(nt))
        for key in out.get('nt_keys', ()):
            self.nontrivial.add(key)
        self.digest.update(json.dumps([case.get('id'), out['verdict'], k, out.get('sig')],
                                      sort_keys=True).encode())
        if out['verdict'] == 'viol':
            sig = out['sig']
            self.viol_count[sig] = self.viol_count.get(sig, 0) + 1
            if sig not in self.viol:
                self.viol[sig] = (case, out)
        elif out['verdict'] == 'dontcare':
            self.dontcare += 1

    def pick_samples(self, cases, outs, n=4):
        if not cases:
            return
        import random
        rnd = random.Random(self.seed)
        idx = sorted(rnd.sample(range(len(cases)), min(n, len(cases))))
        for i in idx:
            o = outs[i]
            self.samples.append({'case': cases[i], 'verdict': o.get('verdict'),
                                 'klass': o.get('klass'), 'detail': _short(o.get('detail'))})

    def finish(self, rule, exhaustive=True, coverage=None, confirm=None):
        """prints verdict lines, writes evidence + replays; returns the exit code"""
        pid = self.pid
        if self.harness:
            for case, msg in self.harness[:5]:
                print('HARNESS-ERROR property=%s case=%s %s' % (pid, case.get('id'), msg))
            self._evidence(rule, exhaustive, coverage, violations=0, note='harness error')
            return 2
        open_, fixed = load_findings(pid)
        new = []
        for sig in sorted(self.viol):
            case, out = self.viol[sig]
            if sig in open_:
                print('KNOWN-FINDING: property=%s %s [%s; %d case(s)]' % (
                    pid, open_[sig]['what'], sig, self.viol_count[sig]))
            else:
                if confirm is not None:
                    again = confirm(case)
                    if again.get('verdict') != 'viol' or again.get('sig') != sig:
                        print('HARNESS-NONDETERMINISM property=%s case=%s first=%s again=%s' % (
                            pid, case.get('id'), sig, again.get('sig')))
                        self._evidence(rule, exhaustive, coverage, 0, note='nondeterminism')
                        return 2
                new.append(sig)
        rdir = os.path.join(os.environ.get('VT_REPLAY_DIR') or os.path.join(VERIF, 'replays'), pid)
        for n, sig in enumerate(new):
            case, out = self.viol[sig]
            os.makedirs(rdir, exist_ok=True)
            path = os.path.join(rdir, '%03d.json' % n)
            with open(path, 'w') as f:
                json.dump({'property': pid, 'signature': sig, 'case': case,
                           'detail': out.get('detail'), 'count': self.viol_count[sig],
                           'tier': self.tier}, f, indent=1, default=str)
            print('VIOLATION property=%s replay=%s' % (pid, path))
            print('  signature: %s (%d case(s)); first witness: %s' % (
                sig, self.viol_count[sig], _short(out.get('detail'), 400)))
        for sig in sorted(open_):
            if sig not in self.viol:
                print('note: listed finding not observed in this run: %s' % sig)
        self._evidence(rule, exhaustive, coverage, violations=len(new))
        print('%s %s: %d evaluations, %d outcome classes, %d nontrivial-distinct, %d known, %d new '
              'violation class(es), %.1fs' % (pid, self.tier, self.evaluations, len(self.classes),
                                               len(self.nontrivial), len(self.viol) - len(new),
                                               len(new), time.time() - self.t0))
        return 1 if new else 0

    def _evidence(self, rule, exhaustive, coverage, violations, note=None):
        cov = {
            'evaluations': int(self.evaluations),
            'distinct_nontrivial': len(self.nontrivial),
            'rule': rule,
            'samples': self.samples[:6] or [{'note': 'no cases'}],
            'exhaustive': bool(exhaustive),
            'outcome_classes': dict(sorted(self.classes.items())),
            'dont_care': self.dontcare,
            'known_finding_classes': sorted(s for s in self.viol),
            'outcome_digest': self.digest.hexdigest(),
        }
        cov.update(self.extra)
        if coverage:
            cov.update(coverage)
        if note:
            cov['note'] = note
        ev = {'property_id': self.pid, 'tier': self.tier, 'seed': int(self.seed),
              'level': self.level, 'coverage': cov, 'assumptions': self.assumptions,
              'wall_s': round(time.time() - self.t0, 2), 'violations': int(violations)}
        edir = os.environ.get('VT_EVIDENCE_DIR') or os.path.join(VERIF, 'evidence')
        os.makedirs(edir, exist_ok=True)
        path = os.path.join(edir, '%s.json' % self.pid)
        tmp = path + '.tmp'
        with open(tmp, 'w') as f:
            json.dump(ev, f, indent=1, default=_default)
        os.replace(tmp, path)


def _default(o):
    if isinstance(o, bytes):
        return o.decode('latin-1')
    if isinstance(o, (set, frozenset)):
        return sorted(o)
    return str(o)


def _short(x, n=300):
    s = x if isinstance(x, str) else json.dumps(x, default=_default)
    return s if len(s) <= n else s[:n] + '...'


COMMON_ASSUMPTIONS = [
    'CPython 3.12.1 stdlib (os, shutil, posixpath) and Linux tmpfs semantics are trusted',
    'checks run as root inside a chroot: permission bits are observed, EACCES is only injected',
    'volumes are modelled by the shim mount table (ismount, EXDEV, EBUSY rules), bound to the '
    'kernel by the T2 conformance self-test when mount(2) is permitted',
    'crash = process kill between two system calls; power-loss / torn pages are out of scope',
]
