"""E3: crash-point enumerator.  For every scenario: one uncrashed run gives the trace; the distinct on-disk
crash states are {before m_1, ..., before m_n, after m_n} for the mutating operations m_i; each is produced by
a fresh execution with crash index m_i (the prefix of its trace must equal the uncrashed one) and judged.

A check module provides: PID, LEVEL, RULE, scenarios(tier), setup(sb, scn) -> ctx, command(scn, ctx) -> kwargs
for Sandbox.run (incl. argv), oracle(scn, ctx, start_snap, sb, result, crashed_at) -> outcome dict."""
import hashlib
import json

from .. import cell, pool, report


def _digest(trace, upto):
    h = hashlib.sha1()
    for t in trace:
        if t[0] >= upto:
            break
        h.update(json.dumps(t[1:5], sort_keys=True).encode())
    return h.hexdigest()


def _world(mod, scn):
    return mod.make_world(scn).spec()


def trace_case(arg):
    import importlib
    mod = importlib.import_module(arg['mod'])
    scn = arg['scn']
    with cell.Sandbox(_world(mod, scn)) as sb:
        ctx = mod.setup(sb, scn)
        start = sb.snapshot()
        kw = mod.command(scn, ctx)
        r = sb.run(kw.pop('argv'), **kw)
        muts = [t[0] for t in r.trace if cell.is_mutating(t)]
        out = mod.oracle(scn, ctx, start, sb, r, None)
    return {'muts': muts, 'nops': len(r.trace), 'final': out, 'digests': {str(m): _digest(r.trace, m) for m in muts},
            'ops': {str(t[0]): t[1] for t in r.trace if t[0] in set(muts)}, 'exit': r.exit,
            'okm': [t[0] for t in r.trace if t[0] in set(muts) and cell.ok_of(t)]}


def run_case(arg):
    import importlib
    mod = importlib.import_module(arg['mod'])
    scn, at = arg['scn'], arg['at']
    with cell.Sandbox(_world(mod, scn)) as sb:
        ctx = mod.setup(sb, scn)
        start = sb.snapshot()
        kw = mod.command(scn, ctx)
        plan = dict(kw.pop('plan', {}) or {})
        mode = arg.get('mode', 'kill')
        plan[{'kill': 'crash_at', 'int-before': 'interrupt_before', 'int-after': 'interrupt_after'}[mode]] = at
        r = sb.run(kw.pop('argv'), plan=plan, **kw)
        if mode == 'kill' and not r.crashed:
            return {'harness': 'HARNESS-CRASH-NOT-REACHED scenario=%s at=%s exit=%s' % (scn, at, r.exit)}
        if mode != 'kill' and not any(t[4] == 'INTERRUPT' for t in r.trace):
            return {'harness': 'HARNESS-INTERRUPT-NOT-DELIVERED scenario=%s at=%s exit=%s' % (scn, at, r.exit)}
        if _digest(r.trace, at) != arg['digest']:
            return {'harness': 'HARNESS-PREFIX-DIVERGENCE scenario=%s at=%s' % (scn, at)}
        out = mod.oracle(scn, ctx, start, sb, r, at)
    out.setdefault('detail', {})
    if isinstance(out['detail'], dict):
        out['detail']['stopped'] = [mode, at, arg.get('op')]
    if mode != 'kill' and out.get('verdict') == 'viol':
        out['sig'] = out['sig'] + '|by=SIGINT'
    return out


def run(mod, tier, seed):
    scns = mod.scenarios(tier)
    t_args = [{'mod': mod.__name__, 'scn': s} for s in scns]
    traces = pool.map_cases(__name__, 'trace_case', t_args)
    rep = report.Report(mod.PID, tier, seed, mod.LEVEL)
    cases, total_points = [], 0
    for s, t in zip(scns, traces):
        if 'harness' in t:
            rep.add({'scn': s}, t)
            continue
        rep.add({'scn': s, 'at': 'end'}, t['final'])
        total_points += len(t['muts']) + 1
        for m in t['muts']:
            for mode in ('kill', 'int-before', 'int-after'):
                if mode == 'int-after' and m not in t['okm']:
                    continue          # the call failed in the reference run: 'after it' is the next 'before'
                # kill = SIGKILL before the operation; int-* = SIGINT (KeyboardInterrupt: handlers and finally blocks DO run)
                cases.append({'mod': mod.__name__, 'scn': s, 'at': m, 'mode': mode, 'digest': t['digests'][str(m)], 'op': t['ops'][str(m)],
                              'id': '%s@%d/%s' % (json.dumps(s, sort_keys=True), m, mode)})
    outs = pool.map_cases(__name__, 'run_case', cases)
    for c, o in zip(cases, outs):
        rep.add(c, o)
    rep.pick_samples(cases, outs)
    rep.assumptions = list(report.COMMON_ASSUMPTIONS) + list(getattr(mod, 'ASSUMPTIONS', []))
    rep.extra.update({'scenarios': len(scns), 'crash_states': total_points, 'stop_modes': ['SIGKILL before each mutating call', 'SIGINT before', 'SIGINT after'],
                      'prefix_determinism': 'the trace prefix of every crashed run was compared with the uncrashed trace'})
    if hasattr(mod, 'dimensions'):
        rep.extra['dimensions'] = mod.dimensions(tier)

    def confirm(case):
        if 'at' not in case or case['at'] == 'end':
            return trace_case({'mod': mod.__name__, 'scn': case['scn']})['final']
        return run_case(case)
    return rep.finish(mod.RULE, exhaustive=True, confirm=confirm)


def replay(mod, path):
    with open(path) as f:
        data = json.load(f)
    case = data['case']
    if case.get('at') in (None, 'end'):
        out = trace_case({'mod': mod.__name__, 'scn': case['scn']})['final']
    else:
        out = run_case(case)
    pool.cleanup()
    print(json.dumps({'case': case, 'outcome': out}, indent=1, default=report._default))
    if out.get('verdict') == 'viol':
        print('VIOLATION property=%s replay=%s' % (mod.PID, path))
        return 1
    return 0
