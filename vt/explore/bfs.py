"""E2: explicit-state breadth-first search over command histories, executed on the real commands.

State = (canonical disk image of the whole world, reference-model state).  A transition runs one real command
on the state rebuilt from its snapshot.  The check module provides:
   initial(tier) -> [state]        state = {'nodes': [...], 'model': JSON, 'aux': JSON}
   ACTIONS (list of labels), DEPTH = {'quick': d, 'thorough': d}
   step({'state': state, 'action': label}) -> {'key': canonical hash, 'state': new state, 'viol': None | (sig, klass, detail),
                                                 'label': outcome label, 'execs': n}
   same_model(a, b) -> bool   (differential oracle: one disk image must not have two different model states)"""
import json
import time

from .. import pool, report


def run(mod, tier, seed):
    depth = mod.DEPTH[tier]
    cap = getattr(mod, 'STATE_CAP', {}).get(tier, 10 ** 7)
    rep = report.Report(mod.PID, tier, seed, mod.LEVEL)
    init = mod.initial(tier)
    seen = {}
    frontier = []
    for ii, st in enumerate(init):
        k = mod.key_of(st)
        if k not in seen:
            seen[k] = {'model': st['model'], 'depth': 0, 'hist': [], 'init': ii, 'limit': st.get('max_depth', depth)}
            frontier.append((k, st))
    transitions = 0
    execs = 0
    per_depth = [len(frontier)]
    labels = {}
    viols = {}
    harness = []
    capped = False
    samples = []
    completed = 0
    for d in range(1, depth + 1):
        tasks = []
        for k, st in frontier:
            if d > seen[k]['limit']:
                continue          # this initial state is explored to a smaller depth
            for a in mod.ACTIONS:
                tasks.append({'state': st, 'action': a, 'hist': seen[k]['hist'], 'init': seen[k]['init'], 'limit': seen[k]['limit']})
        outs = pool.map_cases(mod.__name__, 'step', tasks, chunksize=4)
        nxt = []
        for t, o in zip(tasks, outs):
            if 'harness' in o:
                harness.append((t['hist'] + [t['action']], o['harness']))
                continue
            transitions += 1
            execs += o.get('execs', 1)
            hist = t['hist'] + [t['action']]
            labels[o['label']] = labels.get(o['label'], 0) + 1
            if o.get('viol'):
                sig, klass, detail = o['viol']
                if sig not in viols:
                    viols[sig] = ({'history': hist, 'initial': t['init']}, {'verdict': 'viol', 'sig': sig, 'klass': klass, 'detail': detail}, 1)
                else:
                    c, oo, n = viols[sig]
                    viols[sig] = (c, oo, n + 1)
                continue          # do not expand beyond a violating transition
            k2 = o['key']
            if k2 in seen:
                if not mod.same_model(seen[k2]['model'], o['state']['model']):
                    sig = '%s|same-disk-image-different-model-state' % mod.PID
                    viols.setdefault(sig, ({'history': hist, 'initial': t['init'], 'other_history': seen[k2]['hist']},
                                           {'verdict': 'viol', 'sig': sig, 'klass': 'model-divergence',
                                            'detail': {'a': seen[k2]['model'], 'b': o['state']['model']}}, 1))
                continue
            seen[k2] = {'model': o['state']['model'], 'depth': d, 'hist': hist, 'init': t['init'], 'limit': t['limit']}
            nxt.append((k2, o['state']))
            if len(samples) < 4 and (len(seen) % 97 == seed % 97 or d == depth):
                samples.append({'history': hist, 'outcome': o['label'], 'model': o['state']['model']})
        per_depth.append(len(nxt))
        frontier = nxt
        completed = d
        if len(seen) > cap:
            capped = True
            break
        if not frontier:
            break
    # ---- report -----------------------------------------------------------------------------------
    rep.evaluations = execs
    for l, n in labels.items():
        rep.classes[l] = n
        rep.nontrivial.add(l)
    for sig, (c, o, n) in viols.items():
        rep.viol[sig] = (c, o)
        rep.viol_count[sig] = n
    rep.harness = [({'id': json.dumps(h)}, m) for h, m in harness]
    rep.samples = samples or [{'history': [], 'note': 'initial state only'}]
    rep.assumptions = list(report.COMMON_ASSUMPTIONS) + list(getattr(mod, 'ASSUMPTIONS', []))
    cov = {'states': len(seen), 'transitions': transitions, 'traces_validated_against_impl': transitions,
           'depth_completed': completed, 'new_states_per_depth': per_depth, 'state_cap_hit': capped,
           'alphabet': list(mod.ACTIONS), 'exhaustive_to_depth': completed,
           'note': 'every transition IS an execution of the real command (no abstract model trace needs replaying); the reference model is stepped in lock-step'}

    def confirm(case):
        return mod.replay_history(case)
    return rep.finish(mod.RULE, exhaustive=not capped, coverage=cov, confirm=confirm)


def replay(mod, path):
    with open(path) as f:
        data = json.load(f)
    out = mod.replay_history(data['case'])
    pool.cleanup()
    print(json.dumps({'case': data['case'], 'outcome': out}, indent=1, default=report._default))
    if out.get('verdict') == 'viol':
        print('VIOLATION property=%s replay=%s' % (mod.PID, path))
        return 1
    return 0
