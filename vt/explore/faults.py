"""E4: deviation-bounded fault explorer.  Deviation = one system call answering with an errno instead of the
default answer.  Level 0: the fault-free run.  Level 1: every operation i of that trace x every errno the call
can return.  Level 2: for every level-1 run, every LATER operation j of ITS trace x errno.  Sticky faults model
conditions (read-only volume, full disk): the fault re-applies to every later call of the same syscall under
the same directory.  Every run has an operation budget; exhausting it is the non-termination verdict.

A check module provides PID, LEVEL, RULE, scenarios(tier), make_world(scn), command(scn) -> run kwargs,
oracle(scn, start_snap, after_snap, result, faults) -> outcome, level2_filter(tier, scn, op, errno) -> bool."""
import json

from .. import cell, pool, report

ERRNOS = {
    'stat': ['EACCES', 'EIO', 'ENOENT', 'ENAMETOOLONG', 'ENOTDIR'],
    'lstat': ['EACCES', 'EIO', 'ENOENT', 'ENAMETOOLONG', 'ENOTDIR'],
    'access': ['EACCES'],
    'readlink': ['EACCES', 'EIO'],
    'listdir': ['EACCES', 'EIO'], 'scandir': ['EACCES', 'EIO'],
    'mkdir': ['EACCES', 'EPERM', 'EROFS', 'ENOSPC', 'EIO', 'ENAMETOOLONG', 'EEXIST', 'ENOENT', 'ENOTDIR'],
    'open': ['EACCES', 'EROFS', 'ENOSPC', 'EIO', 'ENAMETOOLONG', 'EEXIST', 'ENOENT'],
    'fopen': ['EACCES', 'EIO', 'ENOSPC', 'EROFS'],
    'write': ['ENOSPC', 'EIO'], 'close': ['EIO'], 'fstat': ['EIO'], 'fchmod': ['EPERM', 'EIO'],
    'rename': ['EACCES', 'EPERM', 'EROFS', 'ENOSPC', 'EIO', 'ENAMETOOLONG', 'ENOENT', 'EXDEV'],
    'unlink': ['EACCES', 'EPERM', 'EROFS', 'EIO', 'ENOENT'], 'remove': ['EACCES', 'EPERM', 'EROFS', 'EIO', 'ENOENT'],
    'rmdir': ['EACCES', 'EROFS', 'EIO', 'ENOTEMPTY'],
    'symlink': ['EACCES', 'EROFS', 'ENOSPC', 'EIO', 'EEXIST'],
    'sendfile': ['ENOSPC', 'EIO'], 'utime': ['EPERM', 'EROFS', 'EIO'], 'chmod': ['EPERM', 'EROFS', 'EIO'],
    'listxattr': ['EACCES', 'EIO'],
}
NOISE = ('/locale/', 'LC_MESSAGES')


def relevant(t):
    """skip the gettext probes of argparse (they cannot influence trashing)"""
    return not any(n in p for p in t[2] for n in NOISE)


def run_case(arg):
    import importlib
    mod = importlib.import_module(arg['mod'])
    scn, faults = arg['scn'], arg['faults']
    with cell.Sandbox(mod.make_world(scn).spec()) as sb:
        start = sb.snapshot()
        kw = mod.command(scn)
        plan = dict(kw.pop('plan', {}) or {})
        plan['faults'] = faults
        plan['budget'] = arg.get('budget', 2000)
        r = sb.run(kw.pop('argv'), plan=plan, **kw)
        after = sb.snapshot()
    injected = [t for t in r.trace if any(f['at'] == t[0] for f in faults)]
    if faults and not r.budget and len(injected) < len(faults) and not arg.get('allow_unreached'):
        pass            # a later fault point may not be reached when the first fault shortened the run
    out = mod.oracle(scn, start, after, r, faults)
    out['ops'] = [[t[0], t[1], 1 if cell.is_mutating(t) else 0] for t in r.trace if relevant(t)]
    return out


def single_faults(ops, sticky=False):
    """level-1 fault list for a recorded trace [(seq, op, mutating)]: every op x every errno the call can return"""
    out = []
    for seq, op, mut in ops:
        for e in ERRNOS.get(op, []):
            out.append({'at': seq, 'errno': e, 'op': op})
            if sticky and mut and e != 'EEXIST':
                out.append({'at': seq, 'errno': e, 'op': op, 'sticky': True})
    return out


def ops_of(trace):
    return [[t[0], t[1], 1 if cell.is_mutating(t) else 0] for t in trace if relevant(t)]


def _cases(mod, scn, base_faults, ops, after_seq, level, tier, budget, sticky=False):
    out = []
    for seq, op, mut in ops:
        if seq <= after_seq:
            continue
        for e in ERRNOS.get(op, []):
            if level == 2 and not mod.level2_filter(tier, scn, op, e, mut):
                continue
            f = {'at': seq, 'errno': e, 'op': op}
            if sticky:
                if not mut and op not in ('stat', 'lstat'):
                    continue
                if e == 'EEXIST':
                    continue      # "this name is taken" is an answer about one name, not a condition: a directory in which
                                  # EVERY name is taken does not exist, so a persistent EEXIST is not injected
                f['sticky'] = True
            out.append({'mod': mod.__name__, 'scn': scn, 'faults': base_faults + [f], 'budget': budget,
                        'id': '%s|%s' % (json.dumps(scn, sort_keys=True), ';'.join('%d:%s:%s%s' % (x['at'], x['op'], x['errno'], '*' if x.get('sticky') else '')
                                                                               for x in base_faults + [f]))})
    return out


def run(mod, tier, seed):
    scns = mod.scenarios(tier)
    rep = report.Report(mod.PID, tier, seed, mod.LEVEL)
    l0 = pool.map_cases(__name__, 'run_case', [{'mod': mod.__name__, 'scn': s, 'faults': []} for s in scns])
    l1_cases = []
    levels = {'0': len(scns), '1': 0, '1-sticky': 0, '2': 0}
    for s, o in zip(scns, l0):
        rep.add({'scn': s, 'faults': []}, o)
        if 'harness' in o:
            continue
        if o.get('klass') == 'does-not-terminate':
            continue
        budget = 20 * len(o['ops']) + 100
        l1_cases += _cases(mod, s, [], o['ops'], 0, 1, tier, budget)
        st = _cases(mod, s, [], o['ops'], 0, 1, tier, budget, sticky=True)
        levels['1-sticky'] += len(st)
        l1_cases += st
    levels['1'] = len(l1_cases) - levels['1-sticky']
    l1 = pool.map_cases(__name__, 'run_case', l1_cases)
    l2_cases = []
    for c, o in zip(l1_cases, l1):
        rep.add(c, o)
        if 'harness' in o or c['faults'][0].get('sticky') or o.get('klass') == 'does-not-terminate':
            continue          # a run that never finishes has an unbounded trace: nothing to place a second fault on
        l2_cases += _cases(mod, c['scn'], c['faults'], o['ops'], c['faults'][0]['at'], 2, tier, c['budget'])
    levels['2'] = len(l2_cases)
    l2 = pool.map_cases(__name__, 'run_case', l2_cases)
    for c, o in zip(l2_cases, l2):
        rep.add(c, o)
    allc, allo = l1_cases + l2_cases, l1 + l2
    rep.pick_samples([{'scn': c['scn'], 'faults': c['faults']} for c in allc], allo)
    rep.assumptions = list(report.COMMON_ASSUMPTIONS) + [
        'faults are delivered as OSError(errno) from the hooked call (access() returns False instead); only errnos the call can return are injected']
    rep.extra.update({'scenarios': len(scns), 'executions_per_level': levels, 'levels_completed': [0, 1, 2],
                      'level2_scope': mod.LEVEL2_SCOPE[tier]})
    if hasattr(mod, 'dimensions'):
        rep.extra['dimensions'] = mod.dimensions(tier)

    def confirm(case):
        o = run_case({'mod': mod.__name__, 'scn': case['scn'], 'faults': case['faults'], 'budget': case.get('budget', 2000)})
        return o
    return rep.finish(mod.RULE, exhaustive=True, confirm=confirm)


def replay(mod, path):
    with open(path) as f:
        data = json.load(f)
    case = data['case']
    out = run_case({'mod': mod.__name__, 'scn': case['scn'], 'faults': case['faults'], 'budget': case.get('budget', 2000)})
    pool.cleanup()
    out.pop('ops', None)
    print(json.dumps({'case': case, 'outcome': out}, indent=1, default=report._default))
    if out.get('verdict') == 'viol':
        print('VIOLATION property=%s replay=%s' % (mod.PID, path))
        return 1
    return 0
