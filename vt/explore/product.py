"""E1: product enumerator.  A check module provides
   LEVEL, RULE, cases(tier) -> [case dict with 'id'], run_case(case) -> outcome dict."""
import random

from .. import pool, report


def audit(mod, cases, outs, seed, k=24):
    """T3 determinism audit: re-run a seed-selected subset, outcomes must be identical"""
    rnd = random.Random(seed * 7919 + 13)
    idx = sorted(rnd.sample(range(len(cases)), min(k, len(cases))))
    again = pool.map_cases(mod.__name__, 'run_case', [cases[i] for i in idx])
    bad = []
    for i, o in zip(idx, again):
        a, b = outs[i], o
        if (a.get('verdict'), a.get('klass'), a.get('sig')) != (b.get('verdict'), b.get('klass'), b.get('sig')):
            bad.append((cases[i], a, b))
    return len(idx), bad


def run(mod, tier, seed):
    cases = mod.cases(tier)
    for i, c in enumerate(cases):
        c.setdefault('id', i)
    outs = pool.map_cases(mod.__name__, 'run_case', cases)
    rep = report.Report(mod.PID, tier, seed, mod.LEVEL)
    if hasattr(mod, 'fault_stage'):
        # second stage (E4 level 1 inside an E1 check): every operation of the recorded trace of the selected
        # points answers with every errno it can return; the module's oracle judges the faulted run
        extra = mod.fault_stage(tier, cases, outs)
        for i, c in enumerate(extra):
            c.setdefault('id', len(cases) + i)
        xouts = pool.map_cases(mod.__name__, 'run_case', extra)
        rep.extra['fault_stage'] = {'base_points': sum(1 for o in outs if o.get('ops')), 'single_fault_executions': len(extra),
                                    'delivered': sum(1 for o in xouts if o.get('delivered'))}
        cases, outs = cases + extra, outs + xouts
    for o in outs:
        o.pop('ops', None)
    for c, o in zip(cases, outs):
        rep.add(c, o)
    rep.pick_samples(cases, outs)
    rep.assumptions = list(report.COMMON_ASSUMPTIONS) + list(getattr(mod, 'ASSUMPTIONS', []))
    n, bad = audit(mod, cases, outs, seed)
    rep.extra['determinism_audit'] = {'reexecuted': n, 'mismatches': len(bad)}
    if hasattr(mod, 'dimensions'):
        rep.extra['dimensions'] = mod.dimensions(tier)
    if bad and not rep.harness:
        c, a, b = bad[0]
        print('HARNESS-NONDETERMINISM property=%s case=%s %s vs %s' % (mod.PID, c.get('id'), a, b))
        rep._evidence(mod.RULE, True, None, 0, note='nondeterminism')
        return 2

    def confirm(case):
        return pool.map_cases(mod.__name__, 'run_case', [case])[0]
    return rep.finish(mod.RULE, exhaustive=True, confirm=confirm)


def replay(mod, path):
    import json
    with open(path) as f:
        data = json.load(f)
    out = pool.map_cases(mod.__name__, 'run_case', [data['case']])[0]
    print(json.dumps({'case': data['case'], 'outcome': out}, indent=1, default=report._default))
    if out.get('verdict') == 'viol':
        print('VIOLATION property=%s replay=%s' % (mod.PID, path))
        return 1
    return 0
