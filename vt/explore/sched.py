"""E5: schedule explorer for concurrent trash-cli processes.

Each process is a real forked, chrooted command sharing one sandbox.  The shim blocks a process before every
VISIBLE operation (an operation with an entry path inside the declared shared zone) and reports it; the
scheduler grants exactly one process at a time, so an execution is a sequence of process indices, fully
deterministic and replayable.

Search = level-synchronous, parallel, explicit-state BFS without a preemption bound (optionally with one):
state key = (canonical disk image, per process: pending visible operation + hash of its whole observation
history | exit status).  Hashing the observation history is sound (a deterministic process's local state is a
function of what it has observed).  One task = replay a choice prefix on a fresh sandbox with fresh processes."""
import json
import os
import socket

from .. import cell, pool, report, world


class Divergence(Exception):
    pass


def _readline(sock, buf):
    while b'\n' not in buf[0]:
        chunk = sock.recv(65536)
        if not chunk:
            return None
        buf[0] += chunk
    line, buf[0] = buf[0].split(b'\n', 1)
    return json.loads(line)


def execute(mod, scn, prefix, want_traces=False):
    """replay `prefix` (list of process indices); returns the state reached"""
    spec = mod.make_world(scn).spec()
    procs = mod.procs(scn)
    shared = mod.shared(scn)
    with cell.Sandbox(spec) as sb:
        socks, pids, files, bufs = [], [], [], []
        pairs = [socket.socketpair() for _ in procs]
        for i, kw in enumerate(procs):
            kw = dict(kw)
            plan = dict(kw.pop('plan', {}) or {})
            child_sock = pairs[i][1]
            plan.update({'sched_fd': child_sock.fileno(), 'shared': shared, 'resolve': 'all', 'budget': 3000, 'pid': 5000 + i})
            closefds = [p[0].fileno() for p in pairs] + [p[1].fileno() for j, p in enumerate(pairs) if j != i]
            pid, fl = sb.spawn(kw.pop('argv'), plan=plan, close_fds=closefds, **kw)
            pids.append(pid)
            files.append(fl)
        for a, b in pairs:
            b.close()
            socks.append(a)
            bufs.append([b''])
        pending = []
        results = [None] * len(procs)
        for i in range(len(procs)):
            pending.append(_readline(socks[i], bufs[i]))
        inv_viol = None
        steps = 0
        last = None
        preempt = 0

        def reap(i):
            if results[i] is None:
                _, status = os.waitpid(pids[i], 0)
                results[i] = sb.result(status, files[i])
        for i in range(len(procs)):
            if pending[i] is None:
                reap(i)
        for ch in prefix:
            if pending[ch] is None:
                raise Divergence('process %d not enabled at step %d of %r' % (ch, steps, prefix))
            if last is not None and last != ch and pending[last] is not None:
                preempt += 1
            socks[ch].sendall(b'g')
            pending[ch] = _readline(socks[ch], bufs[ch])
            if pending[ch] is None:
                reap(ch)
            last = ch
            steps += 1
            if inv_viol is None:
                v = mod.invariant(scn, sb.snapshot())
                if v:
                    inv_viol = (steps, v)
        snap = sb.snapshot()
        enabled = [i for i in range(len(procs)) if pending[i] is not None]
        # canonical order: the running process first if still enabled, then ascending ids
        if last in enabled:
            enabled = [last] + [i for i in enabled if i != last]
        pstate = []
        for i in range(len(procs)):
            if pending[i] is not None:
                pstate.append(['P', pending[i]['op'], pending[i]['entries'], pending[i]['hist']])
            else:
                pstate.append(['D', results[i]['exit']])
        key = world.canon_hash(snap, extra=json.dumps(pstate))
        out = {'key': key, 'enabled': enabled, 'terminal': not enabled, 'steps': steps, 'preemptions': preempt,
               'inv_viol': inv_viol, 'pending': [[p[1], p[2]] if p[0] == 'P' else p for p in pstate]}
        if not enabled:
            out['term'] = mod.terminal(scn, snap, [dict(exit=r['exit'], err=r['err'][-300:], budget=r['budget']) for r in results])
            if want_traces:
                out['traces'] = [r['trace'] for r in results]
            out['audit'] = audit([r['trace'] for r in results], shared)
        else:
            # release the blocked children
            for i in enabled:
                try:
                    socks[i].close()
                except OSError:
                    pass
            for i in enabled:
                try:
                    os.kill(pids[i], 9)
                except OSError:
                    pass
                os.waitpid(pids[i], 0)
        for s in socks:
            try:
                s.close()
            except OSError:
                pass
    return out


def audit(traces, shared):
    """independence audit: no INVISIBLE operation of a process may touch an entry written by another process"""
    def visible(ents):
        return any(e == s or e.startswith(s + '/') for e in (ents or []) for s in shared)
    writes = []
    for tr in traces:
        w = set()
        for t in tr:
            if cell.is_mutating(t) and t[3]:
                w.update(t[3])
        writes.append(w)
    bad = []
    for i, tr in enumerate(traces):
        for t in tr:
            ents = t[3] or []
            if visible(ents):
                continue
            for j, w in enumerate(writes):
                if j == i:
                    continue
                for e in ents:
                    if any(e == x or e.startswith(x + '/') for x in w):
                        bad.append([i, t[1], e, j])
    return bad[:5]


def task(arg):
    import importlib
    mod = importlib.import_module(arg['mod'])
    try:
        return execute(mod, arg['scn'], arg['prefix'])
    except Divergence as e:
        return {'harness': 'HARNESS-SCHEDULE-DIVERGENCE %s' % e}


def search(mod, scn, bound=None, cap=300000):
    """BFS over schedule prefixes; returns statistics and violations"""
    seen = {}
    frontier = [[]]
    stats = {'states': 0, 'transitions': 0, 'runs': 0, 'terminal_states': 0, 'terminal_outcomes': {}, 'max_depth': 0,
             'preemption_bound': bound, 'capped': False, 'audit_hits': 0}
    viols = {}
    harness = []
    sample_terms = []
    while frontier:
        outs = pool.map_cases(__name__, 'task', [{'mod': mod.__name__, 'scn': scn, 'prefix': p} for p in frontier], chunksize=2)
        nxt = []
        for p, o in zip(frontier, outs):
            stats['runs'] += 1
            if 'harness' in o:
                harness.append((p, o['harness']))
                continue
            if p:
                stats['transitions'] += 1
            if o['inv_viol']:
                sig = o['inv_viol'][1][0]
                viols.setdefault(sig, (p, o['inv_viol'][1]))
                continue
            k = (o['key'], o['preemptions']) if bound is not None else o['key']
            if k in seen:
                continue
            seen[k] = len(p)
            stats['states'] += 1
            stats['max_depth'] = max(stats['max_depth'], len(p))
            if o['terminal']:
                stats['terminal_states'] += 1
                lab = o['term']['label']
                stats['terminal_outcomes'][lab] = stats['terminal_outcomes'].get(lab, 0) + 1
                if o['audit']:
                    stats['audit_hits'] += 1
                    harness.append((p, 'HARNESS-INDEPENDENCE-AUDIT %r' % o['audit']))
                if o['term'].get('viol'):
                    viols.setdefault(o['term']['viol'][0], (p, o['term']['viol']))
                if len(sample_terms) < 3:
                    sample_terms.append({'schedule': ''.join(map(str, p)), 'outcome': lab})
                continue
            for e in o['enabled']:
                if bound is not None:
                    last = p[-1] if p else None
                    cost = o['preemptions'] + (1 if (last is not None and e != last and last in o['enabled']) else 0)
                    if cost > bound:
                        continue
                nxt.append(p + [e])
        if stats['states'] > cap:
            stats['capped'] = True
            break
        if viols:
            # shortest counterexamples found at this depth; deeper levels of a broken tree add nothing
            stats['stopped_at_first_violation_depth'] = max(len(p) for p in frontier)
            break
        frontier = nxt
    stats['samples'] = sample_terms
    return stats, viols, harness


def run(mod, tier, seed):
    rep = report.Report(mod.PID, tier, seed, mod.LEVEL)
    rep.assumptions = list(report.COMMON_ASSUMPTIONS) + list(getattr(mod, 'ASSUMPTIONS', []))
    tot = {'states': 0, 'transitions': 0, 'runs': 0}
    per = []
    open_, _fixed = report.load_findings(mod.PID)
    broken = False
    for scn in mod.scenarios(tier):
        if broken:
            # an earlier (smaller) scenario already violates: a broken tree is reported with its shortest schedule instead of exploring
            # the larger harnesses, whose state spaces may explode on it; on a tree that holds the property nothing is ever skipped
            per.append({'scenario': scn, 'skipped': 'an earlier scenario already shows a violation'})
            continue
        stats, viols, harness = search(mod, scn, bound=scn.get('bound'), cap=scn.get('cap', 300000))
        if any(sig not in open_ for sig in viols):
            broken = True
        per.append({'scenario': scn, **{k: v for k, v in stats.items() if k != 'samples'}})
        for k in tot:
            tot[k] += stats[k]
        rep.evaluations += stats['runs']
        for lab, n in stats['terminal_outcomes'].items():
            key = '%s:%s' % (scn['name'], lab)
            rep.classes[key] = n
            rep.nontrivial.add(key)
        for sig, (p, v) in viols.items():
            case = {'scn': scn, 'schedule': p}
            rep.viol.setdefault(sig, (case, {'verdict': 'viol', 'sig': sig, 'klass': v[1], 'detail': v[2]}))
            rep.viol_count[sig] = rep.viol_count.get(sig, 0) + 1
        for p, m in harness:
            rep.harness.append(({'id': '%s:%s' % (scn['name'], ''.join(map(str, p)))}, m))
        for s in stats['samples']:
            rep.samples.append({'scenario': scn['name'], **s})
        if len(stats['terminal_outcomes']) < 2 and not viols and not harness and scn.get('expect_collision', True):
            rep.harness.append(({'id': scn['name']}, 'HARNESS-VACUOUS only %d terminal outcome(s): nothing collided' % len(stats['terminal_outcomes'])))
    extra = getattr(mod, 'extra_coverage', None)
    cov = {'states': tot['states'], 'transitions': tot['transitions'], 'traces_validated_against_impl': tot['runs'],
           'per_scenario': per, 'note': 'every explored schedule is an execution of the real processes; nothing is replayed from an abstract model'}
    if extra:
        cov.update(extra(tier, seed, rep))

    def confirm(case):
        return mod.replay_case(case)
    capped = any(p.get('capped') for p in per)
    return rep.finish(mod.RULE, exhaustive=not capped, coverage=cov, confirm=confirm)
