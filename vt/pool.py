"""Fork pool: workers inherit the pre-imported tree under test; results come back in case order."""
import glob
import importlib
import multiprocessing
import os
import shutil
import traceback

from . import cell

WORKERS = int(os.environ.get('VT_WORKERS', '0')) or min(16, os.cpu_count() or 4)


def _call(arg):
    modname, fname, case = arg
    try:
        mod = importlib.import_module(modname)
        return getattr(mod, fname)(case)
    except cell.NonTermination as e:
        pid = getattr(mod, 'PID', '?')
        return {'verdict': 'viol', 'sig': '%s|command-does-not-terminate' % pid, 'klass': 'does-not-terminate',
                'nontrivial': 'does-not-terminate', 'detail': {'what': str(e), 'case': case if isinstance(case, dict) else None}}
    except cell.HarnessError as e:
        return {'harness': str(e)}
    except Exception:
        return {'harness': 'HARNESS-EXCEPTION ' + traceback.format_exc()[-1500:]}


def cleanup():
    me = os.getpid()
    for top in ('/dev/shm', os.environ.get('TMPDIR', '/var/tmp')):
        for d in glob.glob(os.path.join(top, 'vt-%d-*' % me)) + glob.glob(os.path.join(top, 'vt-*-%d' % me)):
            shutil.rmtree(d, ignore_errors=True)


def map_cases(modname, fname, cases, workers=None, chunksize=None):
    """run mod.fname(case) for every case on the pool; list of outcomes in case order"""
    cell.init()
    workers = workers or WORKERS
    if not cases:
        return []
    if workers <= 1 or len(cases) < 4:
        try:
            return [_call((modname, fname, c)) for c in cases]
        finally:
            cleanup()
    ctx = multiprocessing.get_context('fork')
    if chunksize is None:
        chunksize = max(1, min(32, len(cases) // (workers * 8) or 1))
    pool = ctx.Pool(workers)
    try:
        return pool.map(_call, [(modname, fname, c) for c in cases], chunksize)
    finally:
        pool.close()
        pool.terminate()
        pool.join()
        cleanup()
