"""C06 -- trash-restore never clobbers an existing destination unless --overwrite is given.

E1 product: destination kind x trashed kind x --overwrite x selection shape x sort mode.
The trashed entries are produced by the real trash-put; the destination is then planted by the
harness; the real trash-restore runs with the reply on stdin."""
from .. import cell, scen, world
from ..explore import faults, product

PID = 'C06'
LEVEL = 'exploration'
TECHNIQUE = ('bounded-exhaustive enumeration (model checking of the implementation): full product of destination kinds x entry kinds x options, every point executed on the real scripts in a chroot cell; '
             'plus exhaustive single-fault injection (deviation bound 1) over the restore traces of the occupied destinations without --overwrite')
LEVEL_TEXT = ('every combination of destination kind, trashed kind, --overwrite, selection shape and sort mode is executed '
              'on the real trash-put/trash-restore and judged on before/after disk snapshots; exhaustive over the stated finite '
              'alphabet, which contains one representative of every branch of the existence probe and of shutil.move; "an occupied destination is never replaced" '
              'is also checked when any single file-system call of the restore run fails (EACCES, EIO, ENAMETOOLONG, ...; not ENOENT / ENOTDIR, which describe another world)')
LEVEL_NOTE = 'trusted: CPython/shutil, tmpfs, the snapshot comparer; names and contents outside the alphabet are not covered'
RULE = ('full Cartesian product of destination kind (absent, regular file, empty dir, non-empty dir, '
        'symlink->file, symlink->dir, dangling symlink, regular file owned by another user) x trashed kind (6) x --overwrite x selection '
        'shape (single / "0,1" with first or second blocked / "0-1") x --sort, and single selections again with the trash directory named by --trash-dir; plus an entry whose place gets taken by a directory restored earlier in the same run; plus the same location trashed twice and both indices chosen in one run (parent kept / removed); every point executed '
        'on the real trash-put + trash-restore; non-trivial = the run reached the existence probe '
        '(listing printed and an index chosen), distinct = outcome class x dest x kind x overwrite; fault stage: occupied destination (9) x trashed kind (6) (single selection, no --overwrite, '
        '--sort date; thorough also via --trash-dir) x every operation of the fault-free restore trace x every failure errno of that call, one fault per run')
DESTS = ['absent', 'file', 'file-same-stat', 'file-other-owner', 'file-readonly', 'emptydir', 'dir', 'lfile', 'ldir', 'ldang']
SELS = ['single', 'comma-first', 'comma-second', 'range-first', 'range-second']
SORTS = ['date', 'path', 'none']
W = '/home/u/w'
TD = scen.HOME_TRASH


def dimensions(tier):
    return {'dest': len(DESTS), 'kind': len(scen.KINDS), 'overwrite': 2,
            'selection': len(SELS), 'sort': len(sorts(tier))}


def fault_stage(tier, cases_, outs):
    """"never replaced" has a verdict whatever the file system answers: for every occupied destination kind x trashed kind (one entry
    selected, no --overwrite) every operation of the restore run's fault-free trace fails once with every errno that reports a failure"""
    out = []
    for c, o in zip(cases_, outs):
        if o.get('ops') and not c.get('part') and not c.get('name') and c['sel'] == 'single' and not c['ow'] and c['dest'] != 'absent' \
                and c['sort'] == 'date' and (tier == 'thorough' or not c.get('via')):
            for f in faults.single_faults(o['ops']):
                if f['errno'] in ('ENOENT', 'ENOTDIR'):
                    continue        # "it is not there" describes another world (the destination was removed at that instant): then restoring onto the place is right
                out.append(dict({k: v for k, v in c.items() if k != 'id'}, faults=[f]))
    return out


def sorts(tier):
    return SORTS if tier == 'thorough' else ['date', 'none']


def cases(tier):
    out = []
    for so in sorts(tier):
        for ow in (0, 1):
            for k in scen.KINDS:
                for d in ('file', 'ldang', 'emptydir'):
                    out.append({'part': 'at-prompt', 'kind': k, 'ow': ow, 'sort': so, 'dest': d})
    for so in sorts(tier):
        for ow in (0, 1):
            for k in scen.KINDS:
                for var in ('parent-kept', 'parent-removed'):
                    for reply in ('0,1', '0-1', '1,0'):
                        out.append({'part': 'twice', 'kind': k, 'ow': ow, 'sort': so, 'var': var, 'reply': reply})
    # an entry written by another implementation whose Path ends in a slash; something that is not a directory already sits at that place
    for so in ('date', 'none'):
        for ow in (0, 1):
            for k in ('file', 'tree', 'lfile'):
                for d in ('file', 'lfile', 'ldang'):
                    out.append({'part': 'slash-path', 'kind': k, 'ow': ow, 'sort': so, 'dest': d})
    # an older d/x, then the whole of d (with a newer x inside) were trashed; d is restored first IN THE SAME RUN: the older x now finds its place taken
    for so in ('path', 'date', 'none'):
        for ow in (0, 1):
            for k in ('file', 'lfile', 'ldang'):
                for reply in ('0,1', '1,0', '0-1'):
                    out.append({'part': 'nested', 'kind': k, 'ow': ow, 'sort': so, 'reply': reply})
    for so in sorts(tier):
        for sel in SELS:
            for ow in (0, 1):
                for k in scen.KINDS:
                    for d in DESTS:
                        out.append({'dest': d, 'kind': k, 'ow': ow, 'sel': sel, 'sort': so})
    # unusual names of the entry itself: a decomposed accent (the composed spelling is another directory entry), 240 bytes
    for so in sorts(tier):
        for ow in (0, 1):
            for k in scen.KINDS:
                for d in ('file', 'ldang', 'lfile'):
                    for nm in ('cafe\u0301', 'N' * 240):
                        out.append({'dest': d, 'kind': k, 'ow': ow, 'sel': 'single', 'sort': so, 'name': nm})
    # the same trash directory named explicitly with --trash-dir
    for so in sorts(tier):
        for ow in (0, 1):
            for k in scen.KINDS:
                for d in DESTS:
                    out.append({'dest': d, 'kind': k, 'ow': ow, 'sel': 'single', 'sort': so, 'via': 'trash-dir'})
    return out


def plant(W_, path, dest):
    if dest == 'file-readonly':
        W_.file(path, 'pre-existing destination without any write permission bit\n', mode=0o444)
    elif dest in ('file', 'file-other-owner'):
        W_.file(path, 'pre-existing destination\n', mode=0o666)
    elif dest == 'file-same-stat':
        pass        # planted by the caller: same size, mode and mtime as the trashed file, other bytes
    elif dest == 'emptydir':
        W_.dir(path, mode=0o711)
    elif dest == 'dir':
        W_.dir(path, mode=0o711)
        W_.file(path + '/child', 'child of pre-existing dir\n')
    elif dest == 'lfile':
        W_.link(path, '/home/u/tgt/file')
    elif dest == 'ldir':
        W_.link(path, '/home/u/tgt/dir')
    elif dest == 'ldang':
        W_.link(path, '/home/u/nothing-here')


def run_twice(c):
    """the same original location trashed twice (two versions); both indices chosen in ONE run: the second restore
    finds the destination occupied by the first one and must refuse (or replace it under --overwrite)"""
    import shutil
    D = W + '/sub'
    path = D + '/b'
    Wd = scen.base_world()
    Wd.dir(D)
    scen.add_entry(Wd, path, c['kind'], tag=' v1')
    with cell.Sandbox(Wd.spec()) as sb:
        v1 = sb.snapshot()
        r = sb.run(['trash-put', 'b'], now='2024-01-01T10:00:00', cwd=D)
        W2 = scen.base_world()
        W2.nodes, W2.order = {}, []
        scen.add_entry(W2, path, 'file' if c['kind'] != 'file' else 'tree', tag=' v2')
        world.build(sb.root, [W2.nodes[p] for p in W2.order if p == path or p.startswith(path + '/')])
        v2 = sb.snapshot()
        r = sb.run(['trash-put', 'b'], now='2024-01-02T10:00:00', cwd=D)
        if c['var'] == 'parent-removed':
            shutil.rmtree(sb.root + D)
        before = sb.snapshot()
        argv = ['trash-restore', '--sort', c['sort']] + (['--overwrite'] if c['ow'] else []) + [W]
        r = sb.run(argv, stdin=c['reply'] + '\n', cwd='/')
        after = sb.snapshot()
    listing = scen.parse_restore_listing(r.out)
    detail = {'argv': argv, 'reply': c['reply'], 'exit': r.exit, 'err': r.err[-300:], 'listing': listing}
    if len(listing) != 2:
        return {'verdict': 'dontcare', 'klass': 'twice:not-both-listed', 'detail': detail}
    order = [int(x) for x in c['reply'].replace('-', ',').split(',')]
    ver = {'2024-01-01 10:00:00': v1, '2024-01-02 10:00:00': v2}
    first_v, second_v = ver[listing[order[0]][1]], ver[listing[order[1]][1]]
    infos, pays = world.pairs(after, TD)
    dims = 'twice|%s|kind=%s|ow=%d|%s' % (c['var'], c['kind'], c['ow'], c['reply'])
    at_first = world.same_entry(first_v, path, after, path)
    at_second = world.same_entry(second_v, path, after, path)
    if not c['ow']:
        ok = at_first and r.exit != 0 and len(infos) == 1 and len(pays) == 1
        if ok:
            return {'verdict': 'ok', 'klass': 'twice:second-refused', 'nontrivial': dims, 'detail': detail}
        what = 'clobbered-entry-restored-earlier-in-the-same-run' if not at_first else 'second-restore-not-refused-cleanly'
        return {'verdict': 'viol', 'sig': 'C06|%s|ow=0' % what, 'klass': what, 'nontrivial': dims,
                'detail': dict(detail, at_first=at_first, at_second=at_second, left=[sorted(infos), sorted(pays)])}
    def dirlike(v):
        return v[path][0] == 'd' or (v[path][0] == 'l' and v[path][1].endswith('/tgt/dir'))
    if dirlike(first_v) or dirlike(second_v):
        # don't-care class of the property: --overwrite onto a directory (or a link to one): shutil.move puts the entry inside it
        return {'verdict': 'dontcare', 'klass': 'twice:overwrite-involving-directory', 'detail': detail}
    if at_second and r.exit == 0 and not infos and not pays:
        return {'verdict': 'ok', 'klass': 'twice:second-replaced-first', 'nontrivial': dims, 'detail': detail}
    return {'verdict': 'viol', 'sig': 'C06|overwrite-did-not-replace|twice|kind=%s' % c['kind'], 'klass': 'twice-overwrite-failed', 'nontrivial': dims,
            'detail': dict(detail, at_first=at_first, at_second=at_second)}


def run_at_prompt(c):
    """the destination is created by somebody else AFTER the listing was printed, while trash-restore waits for the reply"""
    path = W + '/b'
    Wd = scen.base_world()
    scen.add_entry(Wd, path, c['kind'])
    with cell.Sandbox(Wd.spec()) as sb:
        orig = sb.snapshot()
        r = sb.run(['trash-put', 'b'], now='2024-01-01T10:00:00', cwd=W)
        before = sb.snapshot()
        planted = {}

        def plant(s):
            extra = world.World()
            extra.nodes, extra.order = {}, []
            globals()['plant'](extra, path, c['dest'])
            world.build(s.root, [extra.nodes[p] for p in extra.order if p.startswith(path)])
            planted['snap'] = s.snapshot()
        argv = ['trash-restore', '--sort', c['sort']] + (['--overwrite'] if c['ow'] else [])
        r = sb.run_dialogue(argv, [(plant, '0')], cwd=W)
        after = sb.snapshot()
    mid = planted.get('snap')
    detail = {'argv': argv, 'exit': r.exit, 'err': r.err[-300:], 'out': r.out[-200:]}
    dims = 'at-prompt|dest=%s|kind=%s|ow=%d' % (c['dest'], c['kind'], c['ow'])
    if mid is None:
        return {'verdict': 'dontcare', 'klass': 'at-prompt:no-prompt-reached', 'detail': detail}
    dest_unchanged = world.under(mid, path) == world.under(after, path)
    pair_intact = world.under(before, TD) == world.under(after, TD)
    if not c['ow']:
        if r.exit != 0 and dest_unchanged and pair_intact:
            return {'verdict': 'ok', 'klass': 'at-prompt:refused', 'nontrivial': dims, 'detail': detail}
        what = 'clobbered-destination-created-while-waiting-at-the-prompt' if not dest_unchanged else 'refusal-not-reported'
        return {'verdict': 'viol', 'sig': 'C06|%s|dest=%s' % (what, c['dest']), 'klass': what, 'nontrivial': dims, 'detail': detail}
    if c['dest'] == 'emptydir' or c['kind'] == 'tree':
        return {'verdict': 'dontcare', 'klass': 'at-prompt:overwrite-involving-directory', 'detail': detail}
    if world.same_entry(orig, path, after, path) and r.exit == 0:
        return {'verdict': 'ok', 'klass': 'at-prompt:replaced', 'nontrivial': dims, 'detail': detail}
    return {'verdict': 'viol', 'sig': 'C06|overwrite-did-not-replace|at-prompt|kind=%s' % c['kind'], 'klass': 'at-prompt-overwrite-failed', 'nontrivial': dims, 'detail': detail}


def run_nested(c):
    D, X = W + '/d', W + '/d/x'
    Wd = scen.base_world()
    Wd.dir(D)
    scen.add_entry(Wd, X, c['kind'], tag=' (older)')
    with cell.Sandbox(Wd.spec()) as sb:
        r = sb.run(['trash-put', 'd/x'], now='2024-01-01T10:00:00')
        with open(sb.root + X, 'w') as f:
            f.write('the newer x, trashed together with d\n')
        r2 = sb.run(['trash-put', 'd'], now='2024-01-02T10:00:00')
        if r.exit or r2.exit:
            return {'verdict': 'dontcare', 'klass': 'put-failed', 'detail': r.err + r2.err}
        before = sb.snapshot()
        argv = ['trash-restore', '--sort', c['sort']] + (['--overwrite'] if c['ow'] else [])
        rr = sb.run(argv, stdin=c['reply'] + '\n', cwd=W)
        after = sb.snapshot()
    listing = scen.parse_restore_listing(rr.out)
    order = [p for i in (([0, 1] if c['reply'] in ('0,1', '0-1') else [1, 0])) for (j, d_, p) in listing if j == i]
    detail = {'argv': argv, 'reply': c['reply'], 'exit': rr.exit, 'err': rr.err[-300:], 'listing': listing, 'restore_order': order}
    dims = 'nested|kind=%s|ow=%d|sort=%s|%s' % (c['kind'], c['ow'], c['sort'], 'd-first' if order[:1] == [D] else 'x-first')
    newer = after.get(X)
    if order[:1] != [D] or c['ow']:
        return {'verdict': 'dontcare', 'klass': 'nested:other-order-or-overwrite', 'detail': detail}
    # d came back first with the newer x inside; the older x must have been refused and must still be in the trash, complete
    newer_ok = newer is not None and newer[0] == 'f' and newer[3] == b'the newer x, trashed together with d\n'
    older_kept = scen.entry_state(before, after, TD, 'x') == 'kept'
    if not newer_ok:
        return {'verdict': 'viol', 'sig': 'C06|clobbered|dest=restored-in-the-same-run|ow=0', 'klass': 'clobbered', 'nontrivial': 'clobbered|' + dims, 'detail': detail}
    if not older_kept or rr.exit == 0:
        return {'verdict': 'viol', 'sig': 'C06|%s|dest=restored-in-the-same-run|ow=0' % ('pair-lost' if not older_kept else 'no-failure-report'), 'klass': 'pair-lost',
                'nontrivial': 'lost|' + dims, 'detail': detail}
    return {'verdict': 'ok', 'klass': 'refused', 'nontrivial': 'refused|' + dims, 'detail': detail}


def run_slash_path(c):
    bpath = W + '/b'
    Wd = scen.base_world()
    scen.add_trashed(Wd, TD, 'b', bpath + '/', '2024-01-01T10:00:00', payload=c['kind'], tag='foreign entry')
    plant(Wd, bpath, c['dest'])
    with cell.Sandbox(Wd.spec()) as sb:
        before = sb.snapshot()
        argv = ['trash-restore', '--sort', c['sort']] + (['--overwrite'] if c['ow'] else [])
        r = sb.run(argv, stdin='0\n', cwd=W)
        after = sb.snapshot()
    listing = scen.parse_restore_listing(r.out)
    dest_unchanged = world.under(before, bpath) == world.under(after, bpath)
    kept = scen.entry_state(before, after, TD, 'b') == 'kept'
    detail = {'argv': argv, 'exit': r.exit, 'err': r.err[-300:], 'listing': listing, 'dest_unchanged': dest_unchanged, 'pair_kept': kept}
    dims = 'slash-path|dest=%s|kind=%s|ow=%d' % (c['dest'], c['kind'], c['ow'])
    if not listing:
        return {'verdict': 'dontcare', 'klass': 'slash-path:not-offered', 'detail': detail}
    if c['ow']:
        lost = not kept and not world.same_entry(before, TD + '/files/b', after, bpath)
        if lost:
            return {'verdict': 'viol', 'sig': 'C06|overwrite-lost-entry|dest=%s|kind=%s|Path-with-trailing-slash' % (c['dest'], c['kind']), 'klass': 'overwrite-lost-entry', 'nontrivial': dims, 'detail': detail}
        return {'verdict': 'dontcare', 'klass': 'slash-path:overwrite', 'detail': detail}
    if not dest_unchanged:
        return {'verdict': 'viol', 'sig': 'C06|clobbered|dest=%s|ow=0|Path-with-trailing-slash' % c['dest'], 'klass': 'clobbered', 'nontrivial': 'clobbered|' + dims, 'detail': detail}
    if not kept and not dest_unchanged:
        return {'verdict': 'viol', 'sig': 'C06|pair-lost|dest=%s|ow=0|Path-with-trailing-slash' % c['dest'], 'klass': 'pair-lost', 'nontrivial': 'lost|' + dims, 'detail': detail}
    if kept and r.exit == 0:
        return {'verdict': 'viol', 'sig': 'C06|no-failure-report|dest=%s|ow=0|Path-with-trailing-slash' % c['dest'], 'klass': 'no-failure-report', 'nontrivial': 'silent|' + dims, 'detail': detail}
    return {'verdict': 'ok', 'klass': 'refused', 'nontrivial': 'refused|' + dims, 'detail': detail}


def run_case(c):
    if c.get('part') == 'slash-path':
        return run_slash_path(c)
    if c.get('part') == 'nested':
        return run_nested(c)
    if c.get('part') == 'at-prompt':
        return run_at_prompt(c)
    if c.get('part') == 'twice':
        return run_twice(c)
    first = c['sel'] in ('single', 'comma-first', 'range-first')
    multi = c['sel'] != 'single'
    bname = c.get('name') or ('b' if first else 'z')
    bpath = W + '/' + bname
    Wd = scen.base_world()
    scen.add_entry(Wd, bpath, c['kind'])
    if multi:
        scen.add_entry(Wd, W + '/m', 'file')
    with cell.Sandbox(Wd.spec()) as sb:
        orig = sb.snapshot()
        t_b = '2024-01-01T10:00:00' if first else '2024-01-03T10:00:00'
        r = sb.run(['trash-put', bname], now=t_b)
        if r.exit != 0:
            return {'verdict': 'dontcare', 'klass': 'put-failed', 'detail': r.err}
        if multi:
            r = sb.run(['trash-put', 'm'], now='2024-01-02T10:00:00')
            if r.exit != 0:
                return {'verdict': 'dontcare', 'klass': 'put-failed', 'detail': r.err}
        extra = world.World()
        extra.nodes, extra.order = {}, []
        plant(extra, bpath, c['dest'])
        world.build(sb.root, [extra.nodes[p] for p in extra.order if p.startswith(bpath)])
        if c['dest'] == 'file-other-owner':
            import os
            os.chown(sb.root + bpath, 54321, 54321)          # e.g. root restoring over a user's file
        if c['dest'] == 'file-same-stat':
            o = orig[bpath]
            if o[0] == 'f' and len(o[3]) > 0:
                twin = bytes((b ^ 1) for b in o[3])
                world.build(sb.root, [['f', bpath, o[1], o[2], twin.decode('latin-1')]])
            else:
                world.build(sb.root, [['f', bpath, 0o640, 1500000000 * 10 ** 9, 'x']])
        before = sb.snapshot()
        argv = ['trash-restore', '--sort', c['sort']] + (['--overwrite'] if c['ow'] else []) + (['--trash-dir', TD] if c.get('via') else [])
        if c['sel'] == 'single' and c['sort'] == 'date' and c['kind'] in ('file', 'tree', 'ldang'):
            argv.append(bpath)          # the entry's own path given as the PATH argument (cwd elsewhere)
        reply = {'single': '0', 'comma-first': '0,1', 'comma-second': '0,1',
                 'range-first': '0-1', 'range-second': '0-1'}[c['sel']]
        flts = c.get('faults') or []
        r = sb.run(argv, stdin=reply + '\n', cwd=W if argv[-1] != bpath else '/outside', plan={'faults': flts} if flts else None)
        after = sb.snapshot()
    listing = scen.parse_restore_listing(r.out)
    detail = {'argv': argv, 'exit': r.exit, 'err': r.err[-300:], 'listing': listing}
    if flts:
        f = flts[0]
        delivered = any(t[0] == f['at'] and t[4] == f['errno'] for t in r.trace)
        fd = 'dest=%s|kind=%s|%s:%s' % (c['dest'], c['kind'], f['op'], f['errno'])
        if world.under(before, bpath) != world.under(after, bpath):
            return {'verdict': 'viol', 'sig': 'C06|clobbered|dest=%s|ow=0|after-%s-%s' % (c['dest'], f['op'], f['errno']), 'klass': 'clobbered-under-fault',
                    'nontrivial': delivered and ('clobbered|' + fd), 'detail': dict(detail, faults=flts), 'delivered': delivered}
        return {'verdict': 'ok', 'klass': 'not-clobbered-under-fault', 'nontrivial': delivered and ('kept|' + fd), 'detail': dict(detail, faults=flts), 'delivered': delivered}
    res = judge(c, r, orig, before, after, listing, detail, bname, bpath, multi)
    if not c['ow'] and c['sel'] == 'single' and c['dest'] != 'absent':
        res['ops'] = faults.ops_of(r.trace)
    return res


def judge(c, r, orig, before, after, listing, detail, bname, bpath, multi):
    dims = 'dest=%s|kind=%s|ow=%d%s' % (c['dest'], c['kind'], c['ow'], '|--trash-dir' if c.get('via') else '')
    reached = len(listing) == (2 if multi else 1)
    pair_b_before = (before.get(TD + '/info/%s.trashinfo' % bname), world.under(before, TD + '/files/' + bname))
    pair_b_after = (after.get(TD + '/info/%s.trashinfo' % bname), world.under(after, TD + '/files/' + bname))
    pair_intact = pair_b_before == pair_b_after and pair_b_before[0] is not None
    pair_gone = pair_b_after[0] is None and not pair_b_after[1]
    dest_unchanged = world.under(before, bpath) == world.under(after, bpath)
    restored = world.same_entry(orig, bpath, after, bpath)
    # frame: nothing outside the trash dir, the two destinations changes
    ign = [TD, bpath, W + '/m', W]
    if c['ow'] and c['dest'] == 'ldir':
        ign.append('/home/u/tgt/dir')     # don't-care class: --overwrite onto a link to a directory
    frame = world.diff(before, after, ignore=ign)
    if frame:
        return {'verdict': 'viol', 'sig': 'C06|frame|' + dims, 'klass': 'frame', 'detail': dict(detail, changed=frame)}
    # the free entry m (multi-selection): whatever left the trash must be complete at destination
    if multi:
        m_pair = (after.get(TD + '/info/m.trashinfo') is not None, bool(world.under(after, TD + '/files/m')))
        m_dest = world.same_entry(orig, W + '/m', after, W + '/m')
        if not (m_pair == (True, True) and not world.under(after, W + '/m') or m_pair == (False, False) and m_dest):
            return {'verdict': 'viol', 'sig': 'C06|free-entry-damaged|sel=%s|%s' % (c['sel'], dims),
                    'klass': 'free-entry-damaged', 'detail': dict(detail, m_pair=m_pair, m_dest=m_dest)}
    if c['dest'] == 'absent':
        if restored and pair_gone and r.exit == 0:
            return {'verdict': 'ok', 'klass': 'control-restored', 'nontrivial': 'restored|' + dims, 'detail': detail}
        return {'verdict': 'dontcare', 'klass': 'control-not-restored(C02)', 'detail': detail}
    if not c['ow']:
        ok = r.exit != 0 and r.err.strip() != '' and dest_unchanged and pair_intact
        if ok:
            return {'verdict': 'ok', 'klass': 'refused', 'nontrivial': reached and ('refused|' + dims), 'detail': detail}
        what = 'clobbered' if not dest_unchanged else ('pair-lost' if not pair_intact else 'no-failure-report')
        return {'verdict': 'viol', 'sig': 'C06|%s|dest=%s|ow=0' % (what, c['dest']), 'klass': what,
                'nontrivial': what + '|' + dims,
                'detail': dict(detail, dest_unchanged=dest_unchanged, pair_intact=pair_intact)}
    # --overwrite
    if c['dest'] == 'file-same-stat' and False:
        pass
    if c['dest'] in ('emptydir', 'dir', 'ldir'):
        # don't-care: what --overwrite does to a directory (or a link to one); only "nothing is lost"
        somewhere = pair_intact or restored or world.same_entry(orig, bpath, after, bpath + '/' + bname) \
            or world.same_entry(orig, bpath, after, '/home/u/tgt/dir/' + bname)
        if somewhere:
            return {'verdict': 'dontcare', 'klass': 'overwrite-onto-directory', 'detail': detail}
        return {'verdict': 'viol', 'sig': 'C06|overwrite-lost-entry|dest=%s|kind=%s' % (c['dest'], c['kind']),
                'klass': 'overwrite-lost-entry', 'detail': detail}
    if restored and pair_gone and r.exit == 0:
        return {'verdict': 'ok', 'klass': 'replaced', 'nontrivial': reached and ('replaced|' + dims), 'detail': detail}
    return {'verdict': 'viol', 'sig': 'C06|overwrite-did-not-replace|kind=%s|dest=non-directory|%s' % (
        c['kind'], 'nothing-lost' if pair_intact and dest_unchanged else 'STATE-DAMAGED'),
            'klass': 'overwrite-did-not-replace', 'nontrivial': 'notreplaced|' + dims,
            'detail': dict(detail, restored=restored, pair_gone=pair_gone, pair_intact=pair_intact)}


def main(tier, seed):
    return product.run(__import__('vt.checks.c06', fromlist=['x']), tier, seed)


def replay(path):
    return product.replay(__import__('vt.checks.c06', fromlist=['x']), path)
