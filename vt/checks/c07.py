"""C07 -- trash-put picks the trash dir the spec prescribes, on the file's own volume.

E1 product over mount layout x .Trash state x .Trash/$uid x .Trash-$uid x file location x environment x
options x fallback x uid, compared with the reference chooser R2 (vt/ref/chooser.py)."""
import sys

from .. import cell, scen, world
from ..explore import product
from ..ref import chooser

PID = 'C07'
LEVEL = 'exploration'
TECHNIQUE = ('bounded-exhaustive enumeration (model checking of the implementation) of the configuration lattice (mount table x '
             'trash-dir states x file location x environment x options x uid) on the real trash-put under a virtual mount table, '
             'against an independent reference chooser transcribed from the spec')
LEVEL_TEXT = ('every configuration of the lattice is materialised and the real trash-put is run in it; the directory that '
              'received the entry must be the one the reference chooser R2 prescribes (or the run must fail cleanly where R2 says '
              'none is usable), created directories must be 0700, no cross-device copy may happen without both fallback switches')
LEVEL_NOTE = ('trusted: R2 (60 lines, from the spec text), the shim mount rules (bound to real tmpfs mounts by selftest T2); '
              'permission-based unusability (non-root) is not modelled')
RULE = ('mounts (5) x .Trash (absent, sticky dir, non-sticky dir, symlink->sticky dir, regular file) x .Trash/uid (absent, present) x '
        '.Trash-uid (absent, dir, file, symlink to a dir, dangling symlink) x file location (home vol, other vol, nested vol, via cross-volume symlinked parent, '
        'symlink-to-other-volume-dir spelled with trailing slash) x env (XDG set, unset, empty, HOME unset, both unset, $HOME/.local a link to another volume, XDG_DATA_HOME below such a link) x option '
        '(-, --trash-dir same vol, other vol, symlinked to other vol, below a linked parent) x fallback (off, flag, env, both) x uid (0,1000); quick tier = '
        'sub-lattice (uid 0, 3 mount layouts, 4 options, fallback off/both/flag+env=0, 5 environments, 3 .Trash-uid states + the other two .Trash-uid states without options); non-trivial = a candidate was examined; distinct = '
        'R2 verdict class x outcome class x location x env x option x fallback')
MOUNTS = {'root-only': ['/'], 'v1': ['/', '/mnt/v1'], 'home': ['/', '/home'],
          'home+v1+v2': ['/', '/home', '/mnt/v1', '/mnt/v2'], 'nested': ['/', '/mnt/v1', '/mnt/v1/inner'],
          'case-twins': ['/', '/mnt/V1', '/mnt/v1']}          # two volumes whose mount points differ in letter case only
TOPS = ['absent', 'sticky', 'nonsticky', 'symlink', 'file']
ALTS = ['absent', 'dir', 'file', 'link-dir', 'dangling']
LOCS = ['home', 'other', 'nested', 'via-symlink', 'linkdir-slash', 'link-to-file-elsewhere']
ENVS = ['xdg', 'unset', 'empty', 'nohome', 'none', 'local-link', 'xdg-under-link']
OPTS = ['-', 'td-same', 'td-other', 'td-symlink', 'td-under-link']
FBS = ['off', 'flag', 'env', 'both', 'flag+env0', 'flag+envyes']


def dimensions(tier):
    q = tier != 'thorough'
    return {'mounts': 3 if q else 5, 'top': 5, 'top_uid': 2, 'alt': 3 if q else 5, 'location': 6, 'env': 5 if q else 7,
            'option': 4 if q else 5, 'fallback': 4 if q else 6, 'uid': 1 if q else 2}


def cases(tier):
    q = tier != 'thorough'
    out = []
    for m in ('v1', 'home+v1+v2', 'nested'):
        for top in ('absent', 'sticky'):
            for order in ('home-first', 'vol-first', 'vol-home-vol', 'outer-inner', 'inner-outer', 'vol-vol2'):
                for e in ('unset', 'xdg'):
                    for fb in (0, 1):
                        out.append({'multi': order, 'm': m, 'top': top, 'env': e, 'uid': 0, 'fb': fb})
    for uid in ([0] if q else [0, 1000]):
        for m in (['v1', 'home', 'nested'] if q else list(MOUNTS)):
            for fb in (['off', 'both', 'flag+env0', 'env'] if q else FBS):
                for o in (['-', 'td-same', 'td-other', 'td-under-link'] if q else OPTS):
                    for e in ([x for x in ENVS if x not in ('nohome', 'none')] if q else ENVS):
                        for loc in LOCS:
                            for alt in (['absent', 'file', 'dangling'] if q else ALTS):
                                for tu in (0, 1):
                                    for top in TOPS:
                                        if tu and top in ('absent', 'file'):
                                            continue
                                        out.append({'m': m, 'top': top, 'tu': tu, 'alt': alt, 'loc': loc, 'env': e,
                                                    'opt': o, 'fb': fb, 'uid': uid})
    if q:
        # the other two states of .Trash-uid (an existing directory - e.g. left by an earlier run -, a link to a directory) on a sub-lattice
        for m in ('v1', 'home', 'nested'):
            for e in ('unset', 'xdg'):
                for loc in LOCS:
                    for alt in ('dir', 'link-dir'):
                        for tu in (0, 1):
                            for top in TOPS:
                                if tu and top in ('absent', 'file'):
                                    continue
                                out.append({'m': m, 'top': top, 'tu': tu, 'alt': alt, 'loc': loc, 'env': e, 'opt': '-', 'fb': 'off', 'uid': 0})
        # a file on another volume spelled LINK/../f (the link crosses the volume boundary), and --trash-dir spelled with a trailing slash
        for m in ('v1', 'home', 'nested'):
            for e in ('unset', 'xdg'):
                for fb in ('off', 'both'):
                    for o in ('-', 'td-same', 'td-same-slash'):
                        for alt in ('absent', 'dir'):
                            for tu in (0, 1):
                                for top in TOPS:
                                    if tu and top in ('absent', 'file'):
                                        continue
                                    out.append({'m': m, 'top': top, 'tu': tu, 'alt': alt, 'loc': 'link-dotdot', 'env': e, 'opt': o, 'fb': fb, 'uid': 0})
            for loc in LOCS:
                for top in ('absent', 'sticky'):
                    out.append({'m': m, 'top': top, 'tu': 0, 'alt': 'absent', 'loc': loc, 'env': 'unset', 'opt': 'td-same-slash', 'fb': 'off', 'uid': 0})
        # --trash-dir spelled LINK/../dir relative to the working directory (LINK -> a directory elsewhere on the same volume)
        for m in ('v1', 'nested'):
            for e in ('unset', 'xdg'):
                for fb in ('off', 'both'):
                    for top in ('absent', 'sticky'):
                        out.append({'m': m, 'top': top, 'tu': 0, 'alt': 'absent', 'loc': 'home', 'env': e, 'opt': 'td-dotdot', 'fb': fb, 'uid': 0})
        # the home trash lives on /mnt/V1, the file on /mnt/v1
        for loc in ('other', 'via-symlink', 'home'):
            for fb in ('off', 'both'):
                for alt in ('absent', 'dir', 'file'):
                    for tu in (0, 1):
                        for top in TOPS:
                            if tu and top in ('absent', 'file'):
                                continue
                            out.append({'m': 'case-twins', 'top': top, 'tu': tu, 'alt': alt, 'loc': loc, 'env': 'xdg-on-twin', 'opt': '-', 'fb': fb, 'uid': 0})
    return out


def run_multi(c):
    """several arguments living on different volumes in ONE run: each must go to the directory prescribed for it"""
    mounts = MOUNTS[c['m']]
    env = {'unset': {'HOME': '/home/u'}, 'xdg': {'HOME': '/home/u', 'XDG_DATA_HOME': '/home/u/xdg'}}[c['env']]
    if c.get('fb'):
        env = dict(env, TRASH_ENABLE_HOME_FALLBACK='1')          # fallback fully enabled: still the LAST resort for every argument
    W = scen.base_world(mounts=mounts, env=env, uid=0, cwd='/home/u/w')
    W.dir('/mnt/v1/w').dir('/home/u/xdg').dir('/mnt/v1/inner/w').dir('/mnt/v2/w')
    if c['top'] == 'sticky':
        for m in mounts:
            W.dir(m.rstrip('/') + '/.Trash', mode=0o1777)
    files = {'h': '/home/u/w/fh', 'v': '/mnt/v1/w/fv', 'v2': '/mnt/v1/w/fv2', 'vi': '/mnt/v1/inner/w/fi', 'w2': '/mnt/v2/w/fw'}
    for k, p_ in files.items():
        W.file(p_, 'content %s\n' % k)
    seq = {'home-first': ['h', 'v'], 'vol-first': ['v', 'h'], 'vol-home-vol': ['v', 'h', 'v2'], 'outer-inner': ['v', 'vi'], 'inner-outer': ['vi', 'v'],
           'vol-vol2': ['v', 'w2']}[c['multi']]
    if c['multi'] == 'vol-vol2' and c['top'] == 'absent':
        W.dir('/mnt/v2/elsewhere').link('/mnt/v1/.Trash-0', '/mnt/v2/elsewhere')          # the first volume's .Trash-uid is a link into the second volume
    args = [files[k] for k in seq]
    with cell.Sandbox(W.spec()) as sb:
        before = sb.snapshot()
        refs = [sb.probe(chooser.choose, {'arg': a, 'mounts': mounts, 'env': env, 'uid': 0, 'trash_dir': None, 'flag': bool(c.get('fb'))}, cwd='/home/u/w') for a in args]
        r = sb.run(['trash-put'] + (['--home-fallback'] if c.get('fb') else []) + args, env=env, cwd='/home/u/w', now='2024-02-02T02:02:02')
        after = sb.snapshot()
        wants = [sb.probe(chooser.realpaths, [ref['dir']], cwd='/home/u/w')[0] if ref['verdict'] == 'dir' else None for ref in refs]
    detail = {'args': args, 'mounts': mounts, 'exit': r.exit, 'err': r.err[-400:], 'refs': refs}
    nt = 'multi|%s|%s|%s|fb%d' % (c['multi'], c['m'], c['top'], c.get('fb', 0))
    exdev = [t for t in r.trace if t[4] == 'EXDEV']
    for a, ref, want in zip(args, refs, wants):
        cl = scen.classify_put(before, after, a, others=[x for x in args if x != a])
        if ref['verdict'] == 'dir':
            if cl['state'] != 'TRASHED' or cl['pair'][0] != want:
                return {'verdict': 'viol', 'sig': 'C07|multi-argument-run-used-the-wrong-trash-dir|order=%s' % c['multi'], 'klass': 'multi-wrong-dir',
                        'nontrivial': nt, 'detail': dict(detail, arg=a, state=cl['state'], pair=cl['pair'], want=want)}
    if exdev and not c.get('fb'):
        return {'verdict': 'viol', 'sig': 'C07|cross-device-copy-without-fallback|multi', 'klass': 'xdev-copy', 'nontrivial': nt, 'detail': detail}
    return {'verdict': 'ok', 'klass': 'multi:each-in-its-prescribed-dir', 'nontrivial': nt, 'detail': detail}


def run_case(c):
    if c.get('multi'):
        return run_multi(c)
    mounts = MOUNTS[c['m']]
    uid = c['uid']
    env = {'local-link': {'HOME': '/home/u'}, 'xdg-under-link': {'HOME': '/home/u', 'XDG_DATA_HOME': '/home/u/dl/xdg'},
           'xdg': {'HOME': '/home/u', 'XDG_DATA_HOME': '/home/u/xdg'}, 'unset': {'HOME': '/home/u'},
           'empty': {'HOME': '/home/u', 'XDG_DATA_HOME': ''}, 'nohome': {'XDG_DATA_HOME': '/home/u/xdg'}, 'none': {},
           'xdg-on-twin': {'HOME': '/home/u', 'XDG_DATA_HOME': '/mnt/V1/xdg'}}[c['env']]
    if c['fb'] in ('env', 'both'):
        env['TRASH_ENABLE_HOME_FALLBACK'] = '1'
    if c['fb'] in ('flag+env0', 'flag+envyes'):
        env['TRASH_ENABLE_HOME_FALLBACK'] = '0' if c['fb'] == 'flag+env0' else 'yes'      # only the value 1 enables it
    W = scen.base_world(mounts=mounts, env=env, uid=uid, cwd='/home/u/w')
    W.dir('/mnt/v1/w/sub').dir('/mnt/v1/inner/w').dir('/mnt/v2/w').dir('/home/u/xdg')
    if c['env'] == 'xdg-on-twin':
        W.dir('/mnt/V1/xdg')
    if c['env'] == 'local-link':
        W.dir('/mnt/v1/ext/local').link('/home/u/.local', '/mnt/v1/ext/local')       # an ANCESTOR of the home trash is a link
    if c['env'] == 'xdg-under-link':
        W.dir('/mnt/v1/ext/dl').link('/home/u/dl', '/mnt/v1/ext/dl')
    for m in mounts:
        mm = m.rstrip('/')
        if c['top'] == 'sticky':
            W.dir(mm + '/.Trash', mode=0o1777)
        elif c['top'] == 'nonsticky':
            W.dir(mm + '/.Trash', mode=0o777)
        elif c['top'] == 'symlink':
            W.dir(mm + '/.realtop', mode=0o1777).link(mm + '/.Trash', '.realtop')
        elif c['top'] == 'file':
            W.file(mm + '/.Trash', 'x')
        if c['tu']:
            base = mm + ('/.realtop' if c['top'] == 'symlink' else '/.Trash')
            W.dir(base + '/%d' % uid, mode=0o700)
        if c['alt'] == 'dir':
            W.dir(mm + '/.Trash-%d' % uid, mode=0o700)
        elif c['alt'] == 'file':
            W.file(mm + '/.Trash-%d' % uid, 'x')
        elif c['alt'] == 'link-dir':
            W.dir(mm + '/.alt-real', mode=0o700).link(mm + '/.Trash-%d' % uid, '.alt-real')
        elif c['alt'] == 'dangling':
            W.link(mm + '/.Trash-%d' % uid, '.alt-missing')
    loc = c['loc']
    if loc == 'home':
        W.file('/home/u/w/f', 'F\n')
        arg, E = 'f', '/home/u/w/f'
    elif loc == 'other':
        W.file('/mnt/v1/w/f', 'F\n')
        arg, E = '/mnt/v1/w/f', '/mnt/v1/w/f'
    elif loc == 'nested':
        W.file('/mnt/v1/inner/w/f', 'F\n')
        arg, E = '/mnt/v1/inner/w/f', '/mnt/v1/inner/w/f'
    elif loc == 'via-symlink':
        W.file('/mnt/v1/w/f', 'F\n').link('/home/u/w/xl', '/mnt/v1/w')
        arg, E = 'xl/f', '/mnt/v1/w/f'
    elif loc == 'link-dotdot':
        W.file('/mnt/v1/f2', 'F\n').link('/home/u/w/xl2', '/mnt/v1/w')
        arg, E = 'xl2/../f2', '/mnt/v1/f2'          # for the kernel: /mnt/v1/w/.. = /mnt/v1 ; collapsed lexically it would be /home/u/w/f2
        W.file('/home/u/w/f2', 'look-alike\n')
    elif loc == 'link-to-file-elsewhere':
        W.file('/mnt/v1/w/target', 'T\n').link('/home/u/w/lnkf', '/mnt/v1/w/target')
        arg, E = 'lnkf', '/home/u/w/lnkf'
    else:
        W.link('/home/u/w/lnkdir', '/mnt/v1/w/sub')
        arg, E = 'lnkdir/', '/home/u/w/lnkdir'
    argv = ['trash-put']
    T = None
    if c['opt'] in ('td-same', 'td-same-slash'):
        T = E.rsplit('/', 2)[0] + '/mytrash'          # sibling of the parent dir: same volume as the file's parent
    elif c['opt'] == 'td-dotdot':
        W.dir('/home/far/sub').link('/home/u/w/tl', '/home/far/sub')
        T = '/home/far/mytrash'                      # what tl/../mytrash means for the kernel (collapsed lexically it would be /home/u/w/mytrash)
    elif c['opt'] == 'td-other':
        T = '/mnt/v2/mytrash' if not E.startswith('/mnt/v2') else '/home/u/mytrash'
        if '/mnt/v2' not in mounts:
            T = '/mnt/v1/mytrash' if (not E.startswith('/mnt/v1') and '/mnt/v1' in mounts) else \
                ('/home/u/mytrash' if ('/home' in mounts and not E.startswith('/home')) else
                 ('/mytrash' if E.startswith('/mnt/v1') and '/mnt/v1' in mounts else T))
    elif c['opt'] == 'td-symlink':
        tgt = '/mnt/v2/realtrash'
        W.dir(tgt)
        T = E.rsplit('/', 2)[0] + '/linktrash'
        W.link(T, tgt)
    elif c['opt'] == 'td-under-link':
        W.dir('/mnt/v2/far')
        W.link(E.rsplit('/', 2)[0] + '/farlink', '/mnt/v2/far')
        T = E.rsplit('/', 2)[0] + '/farlink/mytrash'                                  # the trash dir's PARENT is a link
    if T:
        argv += ['--trash-dir', 'tl/../mytrash' if c['opt'] == 'td-dotdot' else T + ('/' if c['opt'] == 'td-same-slash' else '')]
    if c['fb'] in ('flag', 'both', 'flag+env0', 'flag+envyes'):
        argv.append('--home-fallback')
    argv.append(arg)
    with cell.Sandbox(W.spec()) as sb:
        before = sb.snapshot()
        ref = sb.probe(chooser.choose, {'arg': arg, 'mounts': mounts, 'env': env, 'uid': uid, 'trash_dir': T,
                                         'flag': c['fb'] in ('flag', 'both', 'flag+env0', 'flag+envyes')}, cwd='/home/u/w')
        r = sb.run(argv, env=env, cwd='/home/u/w', now='2024-02-02T02:02:02')
        after = sb.snapshot()
        want_real = sb.probe(chooser.realpaths, [ref['dir']] if ref['verdict'] == 'dir' else [], cwd='/home/u/w')
    cl = scen.classify_put(before, after, E)
    detail = {'argv': argv, 'env': env, 'mounts': mounts, 'ref': ref, 'exit': r.exit, 'err': r.err[-500:], 'state': cl['state'],
              'pair': cl['pair'], 'why': cl['why']}
    dims = 'loc=%s|env=%s|opt=%s|fb=%s|top=%s|alt=%s' % (loc, c['env'], c['opt'], c['fb'], c['top'], c['alt'])
    blame = 'loc=%s|env=%s|opt=%s|fb=%s' % (loc, c['env'], c['opt'], c['fb'])
    examined = any(t[1] in ('mkdir', 'open', 'rename') for t in r.trace)
    nt = '%s|%s|%s' % (ref['verdict'] + ('-fallback' if ref.get('fallback') else ''), cl['state'], dims)
    if r.out != '':
        return {'verdict': 'viol', 'sig': 'C07|prompted', 'klass': 'prompted', 'detail': detail}
    if cl['state'] == 'HALF':
        return {'verdict': 'viol', 'sig': 'C07|half-state|' + blame, 'klass': 'half', 'nontrivial': nt, 'detail': detail}
    exdev = [t for t in r.trace if t[4] == 'EXDEV']
    if ref['verdict'] == 'fail':
        if cl['state'] == 'UNTOUCHED' and r.exit != 0:
            return {'verdict': 'ok', 'klass': 'clean-failure(no usable dir)', 'nontrivial': nt, 'detail': detail}
        return {'verdict': 'viol', 'sig': 'C07|trashed-where-no-dir-is-usable|' + blame, 'klass': 'trashed-unexpectedly',
                'nontrivial': nt, 'detail': detail}
    if cl['state'] != 'TRASHED':
        return {'verdict': 'viol', 'sig': 'C07|not-trashed-although-dir-usable|' + blame,
                'klass': 'not-trashed', 'nontrivial': nt, 'detail': detail}
    td = cl['pair'][0]
    if td != want_real[0]:
        return {'verdict': 'viol', 'sig': 'C07|wrong-trash-dir|' + blame, 'klass': 'wrong-dir', 'nontrivial': nt,
                'detail': dict(detail, got=td, want=want_real[0])}
    if exdev and not ref.get('fallback'):
        return {'verdict': 'viol', 'sig': 'C07|cross-device-copy-without-fallback|' + blame, 'klass': 'xdev-copy', 'nontrivial': nt,
                'detail': detail}
    created = [p for p in after if p not in before and after[p][0] == 'd' and (p == td or p in (td + '/files', td + '/info'))]
    badmode = [(p, oct(after[p][1])) for p in created if after[p][1] != 0o700]
    if badmode:
        return {'verdict': 'viol', 'sig': 'C07|created-dir-not-0700', 'klass': 'bad-mode', 'nontrivial': nt,
                'detail': dict(detail, badmode=badmode)}
    raw = scen.info_of(after, td, cl['pair'][1])
    from ..ref import trashinfo as R1
    p = R1.parse(raw)
    if ref['form'] == 'rel' and ref['V'] == '/' and p['path_raw'].startswith(b'/'):
        # top directory "/": trash-put writes the absolute path, which every reader joins back to the same location;
        # the spec's "relative to $topdir" differs only by the leading slash -> not judged here
        return {'verdict': 'dontcare', 'klass': 'absolute-Path-in-/.Trash-uid', 'detail': detail}
    if ref['form'] == 'abs' and not p['path_raw'].startswith(b'/') or ref['form'] == 'rel' and p['path_raw'].startswith(b'/'):
        return {'verdict': 'viol', 'sig': 'C07|wrong-path-form|form=%s' % ref['form'], 'klass': 'wrong-form', 'nontrivial': nt, 'detail': detail}
    return {'verdict': 'ok', 'klass': 'prescribed-dir' + ('(fallback)' if ref.get('fallback') else ''), 'nontrivial': nt, 'detail': detail}


def main(tier, seed):
    return product.run(sys.modules[__name__], tier, seed)


def replay(path):
    return product.replay(sys.modules[__name__], path)
