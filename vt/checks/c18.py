"""C18 -- trash-put acts on the named entry itself and never follows a final symlink.

E1 product: link target kind x target spelling (abs/rel) x trailing slashes 0..3 x reached directly or
through a linked parent x volume placement; put, then restore."""
import os
import sys

from .. import cell, scen, world
from ..explore import product

PID = 'C18'
LEVEL = 'exploration'
TECHNIQUE = ('bounded-exhaustive enumeration (model checking of the implementation): full product of link kinds x spellings x '
             'placements, each put + restore executed on the real scripts; snapshot oracle on link and target')
LEVEL_TEXT = ('all combinations of link target kind, absolute/relative target text, 0-3 trailing slashes, direct or linked-parent '
              'access and volume placement are executed; the target subtree must be unchanged in every run and a successful run '
              'must have moved the link itself (same readlink) and restore must recreate it')
LEVEL_NOTE = 'trusted: CPython/shutil, tmpfs, shim mount rules; the own mtime of a symlink is not compared (shutil.move recreates links)'
RULE = ('product of target kind (file, dir, nothing, link->file, link->dir, other-volume file, other-volume dir, mount point, the working directory of the process, its parent) x target text '
        '(abs, rel) x slashes (0-3) x reach (direct, via linked parent, absolute path through a symlinked grandparent) x placement (home volume, other volume, other volume with blocked trash dirs + home fallback = cross-device move); plus one run naming {target then link, link then target, two links to the same target}; the link restored plainly and with --overwrite over a regular file; a same-named regular file is trashed before the link is restored; non-trivial = '
        'the argument passed the existence screening; distinct = outcome class x all dimensions')
TARGETS = ['file', 'dir', 'nothing', 'chain-file', 'chain-dir', 'xvol-file', 'xvol-dir', 'mount-point', 'cwd', 'ancestor']
FORMS = ['abs', 'rel']
REACH = ['direct', 'linked-parent', 'abs-linked-grandparent']
PLACE = ['home', 'vol', 'vol-fallback']


def dimensions(tier):
    return {'target': len(TARGETS), 'form': 2, 'slashes': 4, 'reach': 3, 'placement': 3}


def cases(tier):
    out = []
    for pl in PLACE:
        for rc in REACH:
            for sl in range(4):
                for fm in FORMS:
                    for t in TARGETS:
                        out.append({'target': t, 'form': fm, 'slashes': sl, 'reach': rc, 'place': pl})
                        if sl == 0 and rc == 'direct':
                            # ... and brought back with --overwrite over a regular file that took its place meanwhile
                            out.append({'target': t, 'form': fm, 'slashes': sl, 'reach': rc, 'place': pl, 'ow': 1})
        # the link's own name ends in dots, or is not in composed form (directory-like targets, so that trailing slashes are allowed)
        for nm in ('latest.', 'v1..', 'cafe\u0301-cur'):
            for sl in range(4):
                out.append({'target': 'dir', 'form': 'rel', 'slashes': sl, 'reach': 'direct', 'place': pl, 'name': nm})
        # one invocation names the target first and then the link (and the other way round): both are entries of their own
        for fm in FORMS:
            for t in ('file', 'dir', 'chain-file'):
                for order in ('target-first', 'link-first', 'two-links', 'two-links-spelled'):
                    out.append({'target': t, 'form': fm, 'slashes': 0, 'reach': 'direct', 'place': pl, 'with': order})
    return out


def run_case(c):
    B = '/home/u/w' if c['place'] == 'home' else '/mnt/v1/w'
    W = scen.base_world(mounts=['/', '/mnt/v1', '/mnt/v2'], cwd=B)
    putopts, putenv = [], {'HOME': '/home/u'}
    if c['place'] == 'vol-fallback':
        W.file('/mnt/v1/.Trash', 'blocked').file('/mnt/v1/.Trash-0', 'blocked')
        putopts, putenv = ['--home-fallback'], {'HOME': '/home/u', 'TRASH_ENABLE_HOME_FALLBACK': '1'}
    W.dir(B).dir(B + '/real')
    W.file(B + '/real/tfile', 'target file\n', mode=0o600)
    W.dir(B + '/real/tdir', mode=0o555).file(B + '/real/tdir/child', 'child\n')          # (no write permission bits: nothing may "lend" them)
    W.file('/mnt/v2/t/tfile', 'xvol target\n')
    W.dir('/mnt/v2/t/tdir').file('/mnt/v2/t/tdir/child', 'xvol child\n')
    W.link(B + '/real/mid-file', 'tfile').link(B + '/real/mid-dir', 'tdir')
    W.link(B + '/lp', B + '/real')
    t = c['target']
    abs_t = {'file': B + '/real/tfile', 'dir': B + '/real/tdir', 'nothing': B + '/real/void',
             'chain-file': B + '/real/mid-file', 'chain-dir': B + '/real/mid-dir',
             'xvol-file': '/mnt/v2/t/tfile', 'xvol-dir': '/mnt/v2/t/tdir', 'mount-point': '/mnt/v2',
             'cwd': B, 'ancestor': B.rsplit('/', 1)[0]}[t]
    if c['form'] == 'rel':
        if t in ('cwd', 'ancestor'):
            text = '..' if t == 'cwd' else '../..'          # the link lives in B/real
        elif t == 'mount-point':
            text = '../../../../mnt/v2' if c['place'] == 'home' else '../../../v2'
        elif t.startswith('xvol'):
            text = ('../../../mnt/v2/t/' if c['place'] == 'home' else '../../../v2/t/') + abs_t.rsplit('/', 1)[1]
            # from B/real: home: /home/u/w/real -> ../../../.. is /; vol: /mnt/v1/w/real -> ../../.. is /mnt
            text = ('../../../../mnt/v2/t/' if c['place'] == 'home' else '../../../v2/t/') + abs_t.rsplit('/', 1)[1]
        else:
            text = abs_t.rsplit('/', 1)[1]
    else:
        text = abs_t
    LN = c.get('name', 'lnk')
    W.link(B + '/real/' + LN, text)
    E = B + '/real/' + LN
    W.link(B.rsplit('/', 1)[0] + '/galias', B)          # <parent of B>/galias -> B : an absolute spelling through it has a symlink two levels above the link
    arg = {'direct': 'real/' + LN, 'linked-parent': 'lp/' + LN, 'abs-linked-grandparent': B.rsplit('/', 1)[0] + '/galias/real/' + LN}[c['reach']] + '/' * c['slashes']
    if c.get('with'):
        return run_with_target(c, W, B, E, abs_t, putopts, putenv)
    with cell.Sandbox(W.spec()) as sb:
        orig = sb.snapshot()
        den = sb.denote([arg], cwd=B)[0]
        r = sb.run(['trash-put'] + putopts + [arg], cwd=B, now='2024-03-03T03:03:03', env=putenv)
        mid = sb.snapshot()
        cl = scen.classify_put(orig, mid, E)
        r2 = None
        if cl['state'] == 'TRASHED':
            # history: a regular file with the same base name is trashed from another directory before the link is restored
            os.makedirs(sb.root + B + '/elsewhere', exist_ok=True)
            with open(sb.root + B + '/elsewhere/' + LN, 'w') as f:
                f.write('same name, regular file\n')
            r1 = sb.run(['trash-put'] + putopts + ['elsewhere/' + LN], cwd=B, now='2024-03-04T03:03:03', env=putenv)
            if c.get('ow'):
                with open(sb.root + E, 'w') as f:
                    f.write('a regular file took the place of the link\n')
            r2 = sb.run(['trash-restore', '--sort', 'date'] + (['--overwrite'] if c.get('ow') else []) + ['/'], stdin='0\n', cwd='/')
            fin = sb.snapshot()
    detail = {'arg': arg, 'link_text': text, 'exit': r.exit, 'err': r.err[-300:], 'state': cl['state'], 'why': cl['why']}
    dims = '|'.join('%s=%s' % (k, c[k]) for k in ('target', 'form', 'slashes', 'reach', 'place')) + ('|restore--overwrite' if c.get('ow') else '')
    tgt_paths = [B + '/real/tfile', B + '/real/tdir', '/mnt/v2/t', B + '/real/mid-file', B + '/real/mid-dir', '/home/u/tgt', '/outside']
    changed = [p for p in tgt_paths if world.under(orig, p) != world.under(mid, p)]
    dir_like = t in ('dir', 'chain-dir', 'xvol-dir', 'mount-point', 'cwd', 'ancestor')
    blame = 'target=%s|slashes=%s' % (t, 'some' if c['slashes'] else '0')
    nt = den['resolvable'] and ('%s|%s' % (cl['state'], dims))
    if changed:
        return {'verdict': 'viol', 'sig': 'C18|target-touched|' + blame, 'klass': 'target-touched', 'nontrivial': nt,
                'detail': dict(detail, changed=changed)}
    if cl['state'] == 'HALF':
        return {'verdict': 'viol', 'sig': 'C18|half-state|' + blame, 'klass': 'half', 'nontrivial': nt, 'detail': detail}
    if r.exit != 0 and cl['state'] != 'UNTOUCHED':
        return {'verdict': 'viol', 'sig': 'C18|failure-but-moved|' + blame, 'klass': 'failure-but-moved', 'nontrivial': nt, 'detail': detail}
    must = c['slashes'] == 0 or dir_like
    if cl['state'] == 'UNTOUCHED':
        if must:
            return {'verdict': 'viol', 'sig': 'C18|link-not-trashed|' + blame, 'klass': 'not-trashed', 'nontrivial': nt, 'detail': detail}
        return {'verdict': 'ok', 'klass': 'refused(trailing-slash-on-non-dir)', 'nontrivial': nt, 'detail': detail}
    # TRASHED: frame + restore
    frame = scen.frame_changes(orig, mid, E)
    if frame:
        return {'verdict': 'viol', 'sig': 'C18|frame-changed|' + blame, 'klass': 'frame', 'nontrivial': nt, 'detail': dict(detail, frame=frame[:6])}
    back = world.same_entry(orig, E, fin, E)
    td, nm = cl['pair']
    pair_gone = scen.info_of(fin, td, nm) is None and not world.under(fin, '%s/files/%s' % (td, nm))
    detail['restore'] = {'exit': r2.exit, 'err': r2.err[-200:], 'out': r2.out[-200:]}
    if not (back and pair_gone and r2.exit == 0):
        return {'verdict': 'viol', 'sig': 'C18|restore-did-not-recreate-link|' + blame + ('|--overwrite' if c.get('ow') else ''), 'klass': 'restore-failed', 'nontrivial': nt,
                'detail': detail}
    changed = [p for p in tgt_paths if world.under(orig, p) != world.under(fin, p)]
    if changed:
        return {'verdict': 'viol', 'sig': 'C18|target-touched-by-restore|' + blame, 'klass': 'target-touched', 'nontrivial': nt,
                'detail': dict(detail, changed=changed)}
    return {'verdict': 'ok', 'klass': 'link-trashed-and-restored', 'nontrivial': nt, 'detail': detail}


def run_with_target(c, W, B, E, abs_t, putopts, putenv):
    """trash-put TARGET LINK / LINK TARGET / LINK LINK2 in one run: every argument is an entry of its own and must be trashed"""
    T = abs_t
    W.link(B + '/real/lnk2', W.nodes[E][2])          # a second link with the same text
    E2 = B + '/real/lnk2'
    args = {'target-first': [T, E], 'link-first': [E, T], 'two-links': [E, E2], 'two-links-spelled': [E, E2]}[c['with']]
    rel = [a[len(B) + 1:] for a in args]
    if c['with'] == 'two-links-spelled':
        # both links live in B/real; the second is reached as K/../lnk2 with K -> B/real/tdir, while a third, different link sits at <cwd>/lnk2
        # (the first argument's parent is the working directory itself, which is what 'K/..' collapses to lexically)
        W.link(B + '/K', B + '/real/tdir')
        W.link(B + '/lnk2', '/outside/keep')
        W.link(B + '/lnk0', W.nodes[E][2])
        args = [B + '/lnk0', E2]
        rel = ['lnk0', 'K/../lnk2']
    with cell.Sandbox(W.spec()) as sb:
        orig = sb.snapshot()
        r = sb.run(['trash-put'] + putopts + rel, cwd=B, now='2024-03-03T03:03:03', env=putenv)
        mid = sb.snapshot()
    states = [scen.classify_put(orig, mid, a, others=[x for x in args if x != a])['state'] for a in args]
    detail = {'args': rel, 'exit': r.exit, 'err': r.err[-300:], 'states': states}
    dims = 'with=%s|target=%s|form=%s|place=%s' % (c['with'], c['target'], c['form'], c['place'])
    if c['with'] == 'two-links-spelled' and world.under(orig, B + '/lnk2') != world.under(mid, B + '/lnk2'):
        states.append('look-alike-in-cwd-touched')
    if states != ['TRASHED', 'TRASHED'] or r.exit != 0:
        return {'verdict': 'viol', 'sig': 'C18|link-and-target-in-one-run|%s|target=%s|states=%s' % (c['with'], c['target'], ','.join(states)), 'klass': 'not-own-entry',
                'nontrivial': 'with|' + dims, 'detail': detail}
    return {'verdict': 'ok', 'klass': 'link-and-target-both-trashed', 'nontrivial': 'with|' + dims, 'detail': detail}


def main(tier, seed):
    return product.run(sys.modules[__name__], tier, seed)


def replay(path):
    return product.replay(sys.modules[__name__], path)
