"""C13 -- trash-restore offers the right entries and restores exactly the indices chosen.

(a) every reply string of length <= 3 (thorough 4) over a 10-symbol alphabet x list length x sort, judged by
the reference index grammar R5;  (b) every subset (<= 3) of 6 prefix-related original locations x 9 scope
spellings, judged by the path-component scope rule."""
import itertools
import sys

from .. import cell, scen, world
from ..explore import product
from ..ref import indexes as R5
from urllib.parse import quote

PID = 'C13'
LEVEL = 'exploration'
TECHNIQUE = ('bounded-exhaustive enumeration (model checking of the implementation): all reply strings up to length 3/4 over a 10-symbol '
             'alphabet x list lengths x sort modes, and all location subsets x scope spellings, on the real trash-restore; reference index '
             'grammar and scope rule as oracles')
LEVEL_TEXT = ('every reply string of the alphabet is fed to the real trash-restore; when the reference grammar says all indices are in range, exactly '
              'the entries PRINTED at those indices must have left the trash and sit at their destinations, otherwise nothing may change and the '
              'exit status must be non-zero; scoping is checked on all subsets of prefix-related locations')
LEVEL_NOTE = 'trusted: R5 (reference grammar); tokens that only Python int() accepts (" 1", "+1") are don\'t-care; exit status of valid duplicate selections is don\'t-care'
RULE = ('(a) replies: all strings of length 0..3 (thorough 0..4) over {0,1,2,3,9,-,",",space,+,a} plus {99999999999, 0-99999999999, 3-1, 1-2-3, '
        'arabic-indic 3, 0,0, 1-2,2} x list length {1,4} x sort {date,path}; (b) subsets (<=3) of {/a/foo,/a/foobar,/a/foo/x,/a,/b/foo,/foo,/a/foobar/y,/a/foo-bar/z/w,/a/fo%6F/q (a literal percent escape)} x '
        'scope {/a/foo,/a/fo,/a,/,/a/foo/,foo,.,..,none, none with the cwd entered through a symlink and $PWD saying so}; (d) two entries under missing prefix-sibling parents, both chosen; (c) one location trashed twice + another entry x 7 replies x --overwrite on/off x sort; non-trivial = listing printed and reply read; distinct = (R5 class, list length, outcome) and '
        '(scope, subset size, outcome)')
ALPHA = ['0', '1', '2', '3', '9', '-', ',', ' ', '+', 'a']
EXTRA = ['0-1,1-99', '2,2-9', '-3-1', '-1-0', '0,-2-0', '-0', '1--2', '99999999999', '0-99999999999', '3-1', '1-2-3', '٣', '0,0', '1-2,2', '0-3', '3,2,1,0', '0-0']
LOCS = ['/a/foo', '/a/foobar', '/a/foo/x', '/a', '/b/foo', '/foo', '/a/foobar/y', '/a/foo-bar/z/w', '/a/fo%6F/q']
SCOPES = ['/a/foo', '/a/fo', '/a', '/', '/a/foo/', 'foo', '.', '..', 'none', 'pwd-link']
TD = scen.HOME_TRASH


def replies(tier):
    out = ['']
    for k in range(1, (4 if tier == 'thorough' else 3) + 1):
        out += [''.join(t) for t in itertools.product(ALPHA, repeat=k)]
    return out + EXTRA


def dimensions(tier):
    return {'replies': len(replies(tier)), 'list_length': 2, 'sort': 3, 'location_subsets': 129, 'scopes': len(SCOPES), 'same_location_replies': 7}


def cases(tier):
    out = []
    for so in ('date', 'path', 'none'):
        for n in (1, 4):
            for rp in replies(tier):
                out.append({'part': 'a', 'reply': rp, 'n': n, 'sort': so})
    for so in ('date', 'path', 'none'):
        for k in (1, 2, 3):
            for sub in itertools.combinations(LOCS, k):
                for sc in SCOPES:
                    out.append({'part': 'b', 'locs': list(sub), 'scope': sc, 'sort': so})
    # (e) a file trashed from inside a directory, then the directory itself: both chosen, the directory first (reply order matters)
    for so in ('date', 'path', 'none'):
        for rp in ('1,0', '0,1', '0-1'):
            out.append({'part': 'e', 'reply': rp, 'sort': so})
    # (d) two entries whose parents are prefix-siblings (/a/foobar, /a/foo) and no longer exist: both chosen, in both orders
    for so in ('date', 'path', 'none'):
        for rp in ('0-1', '1,0', '0,1'):
            for first in ('longer-first', 'shorter-first'):
                out.append({'part': 'd', 'reply': rp, 'sort': so, 'order': first})
    for so in ('date', 'path', 'none'):
        for ow in (0, 1):
            for rp in ('0-1', '1,0', '0,1', '0', '1', '0-2', '2,0'):
                out.append({'part': 'c', 'reply': rp, 'sort': so, 'ow': ow})
    return out


# entries for part (a): date order is the reverse of path order, so printed index != any fixed order
# (one info file is hidden, one location contains a literal percent escape)
ENTS = [('e0', '/home/u/w/d', '2024-01-01T00:00:00'), ('.e1', '/home/u/w/.c', '2024-01-02T00:00:00'),
        ('e2', '/home/u/w/b%41', '2024-01-03T00:00:00'), ('e3.trashinfo.x', '/home/u/w/a', '2024-01-04T00:00:00')]
PAYLOADS_A = {'e0': 'ldang'}          # the first entry is a dangling symbolic link


def run_a(c):
    W = scen.base_world(cwd='/home/u/w')
    ents = ENTS[:c['n']]
    for nm, loc, d in ents:
        scen.add_trashed(W, TD, nm, quote(loc, '/'), d, payload=PAYLOADS_A.get(nm, 'file'), tag=nm)
    with cell.Sandbox(W.spec()) as sb:
        before = sb.snapshot()
        r = sb.run(['trash-restore', '--sort', c['sort']], cwd='/home/u/w', stdin=c['reply'] + '\n')
        after = sb.snapshot()
    listing = scen.parse_restore_listing(r.out)
    kind, want = R5.judge(c['reply'], c['n'])
    byloc = {loc: nm for nm, loc, d in ents}
    restored = set()
    half = []
    for nm, loc, d in ents:
        st = scen.entry_state(before, after, TD, nm)
        at_dest = world.same_entry(before, TD + '/files/' + nm, after, loc)
        if st == 'purged' and at_dest:
            restored.add(nm)
        elif st == 'kept' and not world.under(after, loc):
            pass
        else:
            half.append((nm, st, at_dest))
    printed = {i: byloc.get(p) for (i, d, p) in listing}
    detail = {'reply': c['reply'], 'n': c['n'], 'sort': c['sort'], 'exit': r.exit, 'err': r.err[-200:], 'listing': listing,
              'R5': [kind, sorted(want)], 'restored': sorted(restored), 'half': half}
    nt = len(listing) == c['n'] and ('%s|n=%d|%s' % (kind, c['n'], 'restored' if restored else ('exit0' if r.exit == 0 else 'rejected')))
    if len(listing) != c['n'] or sorted(i for i, _, _ in listing) != list(range(c['n'])):
        return {'verdict': 'viol', 'sig': 'C13|listing-not-numbered-0..n-1', 'klass': 'bad-listing', 'detail': detail}
    if half:
        return {'verdict': 'viol', 'sig': 'C13|entry-half-restored|kind=%s' % kind, 'klass': 'half', 'nontrivial': nt, 'detail': detail}
    want_names = {printed[i] for i in want}
    nothing = not restored and not world.diff(before, after, info_mtime=True)
    if kind == 'empty':
        ok = nothing
    elif kind == 'valid':
        ok = restored == want_names
    elif kind == 'invalid':
        ok = nothing and r.exit != 0
    else:   # dontcare / reversed: a clean rejection, or the denoted set
        ok = (nothing and (r.exit != 0 or not want_names)) or restored == want_names
    if not ok:
        what = {'empty': 'empty-reply-changed-something', 'valid': 'restored-set-differs-from-chosen-indices',
                'invalid': 'invalid-reply-not-rejected-cleanly'}.get(kind, 'lenient-reply-mishandled')
        return {'verdict': 'viol', 'sig': 'C13|%s|sort=%s' % (what, c['sort']), 'klass': what, 'nontrivial': nt,
                'detail': dict(detail, want=sorted(want_names))}
    return {'verdict': 'ok' if kind not in ('dontcare',) else 'dontcare', 'klass': 'reply:' + kind, 'nontrivial': nt, 'detail': detail}


def run_b(c):
    W = scen.base_world(cwd='/a')
    W.dir('/a/foo').dir('/b')
    dates = {}
    for i, loc in enumerate(c['locs']):
        d = '2024-02-%02dT00:00:00' % (20 - 3 * LOCS.index(loc))
        dates[loc] = d.replace('T', ' ')
        scen.add_trashed(W, TD, ('s%d', '.s%d')[i % 2] % i, quote(loc, '/'), d, payload='file', tag=loc)
    sc = c['scope']
    cwd = '/a/foo' if sc == '..' else '/a'
    env = None
    if sc == 'pwd-link':
        # the working directory was entered through a symbolic link and the shell's logical $PWD still says so
        W.link('/lnk', '/a')
        cwd, env = '/lnk', dict(W.env, PWD='/lnk')
    argv = ['trash-restore', '--sort', c['sort']] + ([] if sc in ('none', 'pwd-link') else [sc])
    eff = {'foo': '/a/foo', '.': '/a', '..': '/a', 'none': '/a', 'pwd-link': '/a', '/a/foo/': '/a/foo'}.get(sc, sc)
    with cell.Sandbox(W.spec()) as sb:
        r = sb.run(argv, cwd=cwd, stdin='\n', env=env)
    listing = scen.parse_restore_listing(r.out)
    want = [l for l in c['locs'] if eff == '/' or l == eff or l.startswith(eff + '/')]
    got = [p for (i, d, p) in listing]
    detail = {'argv': argv, 'cwd': cwd, 'locs': c['locs'], 'listing': listing, 'want': want, 'exit': r.exit, 'err': r.err[-200:]}
    nt = 'scope=%s|k=%d|listed=%d' % (sc, len(c['locs']), len(got))
    if sorted(got) != sorted(want):
        return {'verdict': 'viol', 'sig': 'C13|wrong-entries-offered|scope=%s' % sc, 'klass': 'wrong-scope', 'nontrivial': nt, 'detail': detail}
    if [i for i, _, _ in listing] != list(range(len(listing))):
        return {'verdict': 'viol', 'sig': 'C13|listing-not-numbered-0..n-1', 'klass': 'bad-listing', 'nontrivial': nt, 'detail': detail}
    if c['sort'] == 'date' and [d for _, d, _ in listing] != sorted(d for _, d, _ in listing):
        return {'verdict': 'viol', 'sig': 'C13|not-sorted-by-date', 'klass': 'bad-order', 'nontrivial': nt, 'detail': detail}
    if c['sort'] == 'path' and got != sorted(got):
        return {'verdict': 'viol', 'sig': 'C13|not-sorted-by-path', 'klass': 'bad-order', 'nontrivial': nt, 'detail': detail}
    return {'verdict': 'ok', 'klass': 'scope-ok', 'nontrivial': nt, 'detail': detail}


def run_c(c):
    """one location trashed twice (+ one other entry); with --overwrite every chosen index must leave the trash, without it the second one is refused"""
    W = scen.base_world(cwd='/home/u/w')
    ents = [('v', '/home/u/w/v', '2024-01-01T00:00:00'), ('v_1', '/home/u/w/v', '2024-01-02T00:00:00'), ('o', '/home/u/w/o', '2024-01-03T00:00:00')]
    for nm, loc, d in ents:
        scen.add_trashed(W, TD, nm, loc, d, payload='file', tag=nm)
    argv = ['trash-restore', '--sort', c['sort']] + (['--overwrite'] if c['ow'] else [])
    with cell.Sandbox(W.spec()) as sb:
        before = sb.snapshot()
        r = sb.run(argv, cwd='/home/u/w', stdin=c['reply'] + '\n')
        after = sb.snapshot()
    listing = scen.parse_restore_listing(r.out)
    kind, want = R5.judge(c['reply'], 3)
    gone = sorted(nm for nm, loc, d in ents if scen.entry_state(before, after, TD, nm) == 'purged')
    half = sorted(nm for nm, loc, d in ents if scen.entry_state(before, after, TD, nm).startswith('half'))
    # which info file stands behind a printed line: same location twice -> tell the two apart by their dates
    bykey = {(loc, d.replace('T', ' ')): nm for nm, loc, d in ents}
    chosen = sorted(bykey.get((p, d)) for (i, d, p) in listing if i in want)
    detail = {'argv': argv, 'reply': c['reply'], 'exit': r.exit, 'err': r.err[-200:], 'listing': listing, 'left-the-trash': gone, 'chosen': chosen}
    nt = 'same-location|%s|ow=%d|%s' % (c['reply'], c['ow'], ','.join(gone))
    if len(listing) != 3 or half:
        return {'verdict': 'viol', 'sig': 'C13|entry-half-restored|kind=same-location', 'klass': 'half', 'nontrivial': nt, 'detail': detail}
    if kind != 'valid':
        return {'verdict': 'dontcare', 'klass': 'reply:' + kind, 'detail': detail}
    if c['ow'] or len([x for x in chosen if x in ('v', 'v_1')]) < 2:
        if gone != chosen:
            return {'verdict': 'viol', 'sig': 'C13|restored-set-differs-from-chosen-indices|same-location|ow=%d' % c['ow'], 'klass': 'restored-set-differs-from-chosen-indices',
                    'nontrivial': nt, 'detail': detail}
        return {'verdict': 'ok', 'klass': 'same-location:all-chosen-restored', 'nontrivial': nt, 'detail': detail}
    # without --overwrite the second version finds the destination taken (C06): only a subset of the chosen ones may leave
    if not set(gone) <= set(chosen):
        return {'verdict': 'viol', 'sig': 'C13|restored-an-entry-that-was-not-chosen|same-location', 'klass': 'restored-unchosen', 'nontrivial': nt, 'detail': detail}
    return {'verdict': 'ok', 'klass': 'same-location:second-version-refused', 'nontrivial': nt, 'detail': detail}


def run_d(c):
    W = scen.base_world(cwd='/')
    d1, d2 = ('2024-01-01T00:00:00', '2024-01-02T00:00:00') if c['order'] == 'longer-first' else ('2024-01-02T00:00:00', '2024-01-01T00:00:00')
    ents = [('x', '/gone/a/foobar/x', d1), ('y', '/gone/a/foo/y', d2)]
    for nm, loc, d in ents:
        scen.add_trashed(W, TD, nm, loc, d, payload='file', tag=nm)
    with cell.Sandbox(W.spec()) as sb:
        before = sb.snapshot()
        r = sb.run(['trash-restore', '--sort', c['sort'], '/'], cwd='/', stdin=c['reply'] + '\n')
        after = sb.snapshot()
    bad = [nm for nm, loc, d in ents if not (scen.entry_state(before, after, TD, nm) == 'purged' and world.same_entry(before, TD + '/files/' + nm, after, loc))]
    detail = {'reply': c['reply'], 'sort': c['sort'], 'exit': r.exit, 'err': r.err[-300:], 'not-restored': bad}
    nt = 'prefix-siblings|%s|%s|%s' % (c['reply'], c['sort'], c['order'])
    if bad or r.exit != 0:
        return {'verdict': 'viol', 'sig': 'C13|restored-set-differs-from-chosen-indices|missing-prefix-sibling-parents', 'klass': 'restored-set-differs-from-chosen-indices',
                'nontrivial': nt, 'detail': detail}
    return {'verdict': 'ok', 'klass': 'prefix-siblings:both-restored', 'nontrivial': nt, 'detail': detail}


def run_e(c):
    W = scen.base_world(cwd='/home/u/w')
    ents = [('x', '/home/u/w/d/x', '2024-01-01T00:00:00', 'file'), ('d', '/home/u/w/d', '2024-01-02T00:00:00', 'tree')]
    for nm, loc, d, k in ents:
        scen.add_trashed(W, TD, nm, loc, d, payload=k, tag=nm)
    with cell.Sandbox(W.spec()) as sb:
        before = sb.snapshot()
        r = sb.run(['trash-restore', '--sort', c['sort']], cwd='/home/u/w', stdin=c['reply'] + '\n')
        after = sb.snapshot()
    listing = scen.parse_restore_listing(r.out)
    first = None
    toks = c['reply'].replace('-', ',').split(',')
    for (i, d_, p) in listing:
        if str(i) == toks[0]:
            first = p
    gone = sorted(nm for nm, loc, d, k in ents if scen.entry_state(before, after, TD, nm) == 'purged')
    detail = {'reply': c['reply'], 'sort': c['sort'], 'exit': r.exit, 'err': r.err[-300:], 'listing': listing, 'left-the-trash': gone, 'restored-first': first}
    nt = 'nested|%s|%s|%s' % (c['reply'], c['sort'], 'dir-first' if first == '/home/u/w/d' else 'file-first')
    if first != '/home/u/w/d':
        return {'verdict': 'dontcare', 'klass': 'nested:file-first(the directory is then in the way, C06)', 'detail': detail}
    if gone != ['d', 'x'] or r.exit != 0 or not world.same_entry(before, TD + '/files/x', after, '/home/u/w/d/x'):
        return {'verdict': 'viol', 'sig': 'C13|restored-set-differs-from-chosen-indices|directory-then-the-file-inside-it', 'klass': 'restored-set-differs-from-chosen-indices',
                'nontrivial': nt, 'detail': detail}
    return {'verdict': 'ok', 'klass': 'nested:both-restored-in-reply-order', 'nontrivial': nt, 'detail': detail}


def run_case(c):
    return {'a': run_a, 'b': run_b, 'c': run_c, 'd': run_d, 'e': run_e}[c['part']](c)


def main(tier, seed):
    return product.run(sys.modules[__name__], tier, seed)


def replay(path):
    return product.replay(sys.modules[__name__], path)
