"""C01 -- trash-put conserves data: each argument ends fully trashed or untouched.

E1 product: entry kind x argument spelling x option set x volume/trash layout.  R7 (kernel
denotation inside the chroot) tells which directory entry the spelling names."""
import sys

from .. import cell, scen, world
from ..explore import product

PID = 'C01'
LEVEL = 'exploration'
TECHNIQUE = ('bounded-exhaustive enumeration (model checking of the implementation): full product of entry kinds x '
             'argument spellings x option sets x volume/trash layouts, each executed on the real trash-put in a chroot '
             'cell with a virtual mount table; before/after snapshot oracle')
LEVEL_TEXT = ('every point of the product is executed on the real script and classified TRASHED / UNTOUCHED / half-state from '
              'whole-world snapshots; the space contains one representative per shortcut visible in the code (dot spellings, '
              'trailing slashes, symlinked parents, mount points, every candidate trash dir failing)')
LEVEL_NOTE = ('trusted: CPython/shutil, tmpfs, shim mount rules (EXDEV/EBUSY/ismount); names other than the alphabet and '
              'permission failures of non-root users are not covered')
RULE = ('product of kind (6) x spelling (24; plus 4 unusual entry names for the plain spelling) x option set (15, incl. three combinations and a $HOME full of regex metacharacters) x layout (9: home trash whose info is a regular file / a dangling symlink, first use, existing pair whose payload is a dangling symlink, existing pair with the same name, orphan directory payload + orphan info with the same name, sticky .Trash, plain volume, every candidate blocked) plus one run naming a directory that contains its own --trash-dir next to an ordinary entry (2 orders x 3 kinds x 3 options) and one run with 1100 arguments; minus duplicates (kind is irrelevant for '
        'spellings that do not name x); non-trivial = the run went past argument screening (a trash-dir candidate was '
        'examined or the entry moved), distinct = outcome class x spelling x option x layout')

NAMES_X = ['n.trashinfo', ' s p ', '-dash', 'nl\nx', '100%s %d%', '.dot', '@at', 'cafe\u0301']
SPELL_X = ['x', '/abs/x', './x', 'd/../x', 'x/', 'x//', './/x', 'sd/../x', 'sdv/../x', 'ld/x', 'ldv/x', 'ld/../w/x']
SPELL_DOT = ['.', '..', './', '../', 'd/.', 'd/..', 'd/./', 'd/../', 'sd/..', '/mnt/v2', '/mnt/v2/', '', 'nonexistent',
             'd', '../w', 'd/../../w/']          # the last two name the working directory of the process itself (a real entry: must be trashed whole)
OPTS = ['-', '-f', '-iy', '-in', '-ieof', '-v', '-vv', 'td-same', 'td-link-dotdot', 'td-other', 'hf-flag', 'hf-both', '-f-v', '-iy-v-td-same', '-f-hf-both', 'odd-home']
LAYOUTS = ['home-cold', 'home-warm-samename', 'home-warm-orphans', 'home-warm-dangling', 'home-info-is-file', 'home-info-dangling', 'home-info-missing', 'vol-sticky', 'vol-plain', 'vol-blocked']


def dimensions(tier):
    return {'kind': len(scen.KINDS), 'spelling': len(SPELL_X) + len(SPELL_DOT), 'options': len(opts(tier)),
            'layout': len(layouts(tier))}


def opts(tier):
    return OPTS


def layouts(tier):
    return LAYOUTS


def cases(tier):
    out = []
    for lay in layouts(tier):
        for o in opts(tier):
            for sp in SPELL_X:
                for k in scen.KINDS:
                    out.append({'kind': k, 'sp': sp, 'opt': o, 'lay': lay})
            for sp in SPELL_DOT:
                out.append({'kind': 'file', 'sp': sp, 'opt': o, 'lay': lay})
            if o in ('-', '-f', '-f-v', '-f-hf-both', '-iy'):
                out.append({'kind': 'tree-ro', 'sp': './x', 'opt': o, 'lay': lay})          # a read-only tree keeps its modes
            if o in ('-', '-f', 'td-same', 'hf-both', '-v', '-vv'):
                for nm in NAMES_X:
                    for k in ('file', 'tree', 'ldang'):
                        out.append({'kind': k, 'sp': './x', 'opt': o, 'lay': lay, 'name': nm})
    # one run names a directory that CONTAINS the only candidate trash directory (its move fails by itself: rename says EINVAL) next to an ordinary entry
    for order in ('holder-first', 'holder-last', 'holder-linked-first', 'holder-linked-last'):
        for k in ('file', 'tree', 'ldang'):
            for o in ('-', '-v', '-f'):
                out.append({'special': 'holder', 'order': order, 'kind': k, 'opt': o, 'sp': 'hold+post', 'lay': 'trash-dir-inside-argument'})
    # a long argument list
    out.append({'special': 'many', 'n': 1100, 'kind': 'file', 'opt': '-', 'sp': 'x0000..', 'lay': 'home-cold'})
    return out


def run_special(c):
    B = '/home/u/w'
    W = scen.base_world(mounts=['/', '/mnt/v1'], cwd=B)
    W.dir(B)
    if c['special'] == 'many':
        names = ['x%04d' % i for i in range(c['n'])]
        for n in names:
            W.file(B + '/' + n, n + '\n')
        with cell.Sandbox(W.spec()) as sb:
            before = sb.snapshot()
            r = sb.run(['trash-put'] + names, cwd=B, plan={'budget': 400000})
            after = sb.snapshot()
        infos, pays = world.pairs(after, scen.HOME_TRASH)
        left = [n for n in names if B + '/' + n in after]
        detail = {'exit': r.exit, 'err': r.err[-300:], 'left_in_place': left[:5], 'infos': len(infos), 'payloads': len(pays)}
        if r.exit != 0 or left or len(infos) != c['n'] or set(pays) != set(names) or set(infos) != set(n + '.trashinfo' for n in names):
            return {'verdict': 'viol', 'sig': 'C01|long-argument-list|%s' % ('stray-info' if len(infos) > len(pays) else 'not-all-trashed'), 'klass': 'long-list', 'nontrivial': 'many', 'detail': detail}
        return {'verdict': 'ok', 'klass': 'TRASHED(exit0) x %d' % c['n'], 'nontrivial': 'many|ok', 'detail': detail}
    H, T, P = B + '/hold', B + '/hold/T', B + '/post'
    W.dir(H).file(H + '/keep', 'inside the holder\n')
    scen.add_trash_dir(W, T)
    scen.add_entry(W, P, c['kind'])
    hold = 'hold'
    tdspell = 'hold/T'
    if 'linked' in c['order']:
        # the holder is reached through a symlinked parent (lh -> the working directory) while the trash directory is named by its real, absolute path
        W.link(B + '/lh', B)
        hold, tdspell = 'lh/hold', T
    args = [hold, 'post'] if c['order'].endswith('first') else ['post', hold]
    argv = ['trash-put'] + ([c['opt']] if c['opt'] != '-' else []) + ['--trash-dir', tdspell] + args
    with cell.Sandbox(W.spec()) as sb:
        before = sb.snapshot()
        r = sb.run(argv, cwd=B)
        after = sb.snapshot()
    cl = scen.classify_put(before, after, P)
    hold_b = {k: v for k, v in world.under(before, H).items() if not (k == '/T' or k.startswith('/T/'))}
    hold_a = {k: v for k, v in world.under(after, H).items() if not (k == '/T' or k.startswith('/T/'))}
    holder_ok = set(hold_b) == set(hold_a) and all(world.norm(hold_b[k], dir_mtime=False) == world.norm(hold_a[k], dir_mtime=False) for k in hold_b)
    detail = {'argv': argv, 'exit': r.exit, 'err': r.err[-400:], 'post': cl['state'], 'why': cl['why'], 'holder_intact': holder_ok, 'new': [cl['new_infos'], cl['new_payloads']]}
    nt = 'holder|%s|%s|%s|%s' % (c['order'], c['kind'], c['opt'], cl['state'])
    if cl['state'] != 'TRASHED' or not holder_ok:
        what = 'ordinary-argument-not-trashed-cleanly' if cl['state'] != 'TRASHED' else 'holder-changed'
        return {'verdict': 'viol', 'sig': 'C01|%s|next-to-an-argument-whose-move-fails|%s' % (what, c['order']), 'klass': what, 'nontrivial': nt, 'detail': detail}
    if r.exit == 0:
        return {'verdict': 'viol', 'sig': 'C01|exit-0-although-the-holder-was-not-trashed', 'klass': 'exit-status', 'nontrivial': nt, 'detail': detail}
    return {'verdict': 'ok', 'klass': 'holder-refused+other-trashed', 'nontrivial': nt, 'detail': detail}


def make_world(kind, lay, name='x'):
    on_vol = lay.startswith('vol')
    B = '/mnt/v1/w' if on_vol else '/home/u/w'
    P = B.rsplit('/', 1)[0]
    W = scen.base_world(mounts=['/', '/mnt/v1', '/mnt/v2'], cwd=B)
    W.dir(B)
    scen.add_entry(W, B + '/' + name, kind)
    if name == '@at':
        W.file(B + '/at', 'd\nsd\n')          # what an @file reader would take for a list of arguments (both name existing entries)
    if name == 'cafe\u0301':
        W.file(B + '/caf\u00e9', 'the precomposed twin: another directory entry\n')
    W.dir(B + '/d').file(B + '/d/inner', 'inner of d\n')
    scen.add_entry(W, P + '/x', kind, tag=' (parent copy)')
    W.dir(P + '/other').file(P + '/other/o', 'o\n')
    W.link(B + '/sd', P + '/other')
    W.dir('/mnt/v2/q').file('/mnt/v2/q/qq', 'qq\n')
    scen.add_entry(W, '/mnt/v2/x', kind, tag=' (v2 copy)')
    W.link(B + '/sdv', '/mnt/v2/q')
    W.dir(P + '/w2')
    scen.add_entry(W, P + '/w2/x', kind, tag=' (w2 copy)')
    W.link(B + '/ld', P + '/w2')
    W.dir('/mnt/v2/p')
    scen.add_entry(W, '/mnt/v2/p/x', kind, tag=' (v2/p copy)')
    W.link(B + '/ldv', '/mnt/v2/p')
    W.dir('/mnt/v2/tdother')          # for --trash-dir on another volume
    W.dir(P + '/tdsame')
    W.dir(B + '/tdsame/files').dir(B + '/tdsame/info').file(B + '/tdsame/files/x', 'decoy: not the trash directory that was named\n')
    W.file(B + '/tdsame/info/x.trashinfo', '[Trash Info]\nPath=%s/decoy\nDeletionDate=2001-01-01T00:00:00\n' % B)
    if lay == 'home-warm-samename':
        td = scen.HOME_TRASH
        W.dir(td, mode=0o700).dir(td + '/files', mode=0o700).dir(td + '/info', mode=0o700)
        W.file(td + '/files/x', 'older x\n')
        W.file(td + '/info/x.trashinfo', '[Trash Info]\nPath=/home/u/w/x\nDeletionDate=2020-01-01T00:00:00\n')
    if lay == 'home-info-missing':
        td = scen.HOME_TRASH
        W.dir(td, mode=0o700).dir(td + '/files', mode=0o700)
    if lay in ('home-info-is-file', 'home-info-dangling'):
        # a damaged home trash: info is not a directory -> the candidate must fail cleanly and the next one be tried
        td = scen.HOME_TRASH
        W.dir(td, mode=0o700).dir(td + '/files', mode=0o700)
        if lay == 'home-info-is-file':
            W.file(td + '/info', 'not a directory\n')
        else:
            W.link(td + '/info', 'nowhere')
    if lay == 'home-warm-dangling':
        # an earlier, complete pair named like the argument whose payload is a dangling symlink (exists() says "free")
        td = scen.HOME_TRASH
        W.dir(td, mode=0o700).dir(td + '/files', mode=0o700).dir(td + '/info', mode=0o700)
        W.link(td + '/files/x', 'gone-target')
        W.file(td + '/info/x.trashinfo', '[Trash Info]\nPath=/home/u/w/x\nDeletionDate=2020-01-01T00:00:00\n')
    if lay == 'home-warm-orphans':
        # leftovers of interrupted runs: a payload DIRECTORY without info, and an info without payload, both named like the argument
        td = scen.HOME_TRASH
        W.dir(td, mode=0o700).dir(td + '/files', mode=0o700).dir(td + '/info', mode=0o700)
        W.dir(td + '/files/x').file(td + '/files/x/keep', 'orphan directory payload\n')
        W.file(td + '/info/x_1.trashinfo', '[Trash Info]\nPath=/home/u/w/x\nDeletionDate=2020-01-01T00:00:00\n')
    if lay == 'vol-sticky':
        W.dir('/mnt/v1/.Trash', mode=0o1777)
    if lay == 'vol-blocked':
        W.file('/mnt/v1/.Trash', 'not a dir\n')
        W.file('/mnt/v1/.Trash-0', 'not a dir\n')
    return W, B, P


def run_case(c):
    if c.get('special'):
        return run_special(c)
    W, B, P = make_world(c['kind'], c['lay'], c.get('name', 'x'))
    sp = c['sp']
    arg = sp.replace('/abs/x', B + '/x')
    if c.get('name'):
        arg = './' + c['name'] if not c['name'].startswith('@') else c['name']          # (an @name is given bare, the way a user would type it)
    argv = ['trash-put']
    stdin = None
    env = dict(W.env)
    o = c['opt']
    if o == '-f':
        argv.append('-f')
    elif o in ('-iy', '-in', '-ieof'):
        argv.append('-i')
        stdin = {'-iy': 'y\n', '-in': 'n\n', '-ieof': None}[o]
    elif o in ('-v', '-vv'):
        argv.append(o)
    elif o == 'td-same':
        argv += ['--trash-dir', P + '/tdsame']
    elif o == 'td-link-dotdot':
        # the same directory spelled through a symlink and '..': ld -> P/w2, so ld/../tdsame IS P/tdsame; a lexical collapse would name B/tdsame (a decoy)
        argv += ['--trash-dir', 'ld/../tdsame']
    elif o == 'td-other':
        argv += ['--trash-dir', '/mnt/v2/tdother' if not B.startswith('/mnt/v2') else '/home/u/tdx']
    elif o == '-f-v':
        argv += ['-f', '-v']
    elif o == '-iy-v-td-same':
        argv += ['-i', '-v', '--trash-dir', P + '/tdsame']
        stdin = 'y\n'
    elif o == '-f-hf-both':
        argv += ['-f', '--home-fallback']
        env['TRASH_ENABLE_HOME_FALLBACK'] = '1'
    elif o == 'odd-home':
        # $HOME is not a valid regular expression (the trash stays where the layouts put it, via XDG_DATA_HOME)
        env['HOME'] = '/home/o(h +[x'
        env['XDG_DATA_HOME'] = '/home/u/.local/share'
    elif o == 'hf-flag':
        argv.append('--home-fallback')
    elif o == 'hf-both':
        argv.append('--home-fallback')
        env['TRASH_ENABLE_HOME_FALLBACK'] = '1'
    argv += ['--', arg] if arg.startswith('-') else [arg]
    spec = W.spec()
    with cell.Sandbox(spec) as sb:
        den = sb.denote([arg], cwd=B)[0]
        before = sb.snapshot()
        r = sb.run(argv, stdin=stdin, env=env, cwd=B)
        after = sb.snapshot()
    E = den['entry'] if den['resolvable'] and den['entry'] else None
    if E is not None and not den['resolvable']:
        E = None
    cl = scen.classify_put(before, after, E)
    frame = scen.frame_changes(before, after, E)
    detail = {'argv': argv, 'exit': r.exit, 'err': r.err[-400:], 'entry': E, 'state': cl['state'],
              'why': cl['why'], 'frame': frame[:8], 'new': [cl['new_infos'], cl['new_payloads']]}
    dims = 'sp=%s|opt=%s|lay=%s' % (sp, o, c['lay'])
    past_screening = any(t[1] in ('mkdir', 'rename', 'open') for t in r.trace) or \
        any('.Trash' in p or '/Trash' in p for t in r.trace for p in t[2])
    nt = past_screening and (cl['state'] + '|' + dims)
    blame = 'sp=%s' % sp
    if cl['state'] == 'HALF':
        what = 'half-state'
        if cl['new_payloads'] and not cl['new_infos']:
            what = 'orphan-payload'
        elif cl['new_infos'] and not cl['new_payloads']:
            what = 'stray-info'
        elif E is not None and not world.under(after, E) and not cl['new_payloads']:
            what = 'entry-lost'
        elif E is not None and cl['new_payloads'] and world.under(before, E) == world.under(after, E):
            what = 'wrong-entry-trashed'
        return {'verdict': 'viol', 'sig': 'C01|%s|%s|exit=%s' % (what, blame, 'zero' if r.exit == 0 else 'nonzero'),
                'klass': what, 'nontrivial': nt, 'detail': detail}
    if frame:
        return {'verdict': 'viol', 'sig': 'C01|frame-changed|%s' % blame, 'klass': 'frame-changed',
                'nontrivial': nt, 'detail': detail}
    if r.exit != 0 and cl['state'] != 'UNTOUCHED':
        return {'verdict': 'viol', 'sig': 'C01|failure-reported-but-moved|%s' % blame, 'klass': 'failure-but-moved',
                'nontrivial': nt, 'detail': detail}
    if E is None and r.exit == 0 and o != '-f' and not (o == '-ieof'):
        # an argument that names nothing: fine as long as nothing changed (checked above)
        pass
    return {'verdict': 'ok', 'klass': cl['state'] + ('(exit0)' if r.exit == 0 else '(exit!=0)'),
            'nontrivial': nt, 'detail': detail}


def main(tier, seed):
    return product.run(sys.modules[__name__], tier, seed)


def replay(path):
    return product.replay(sys.modules[__name__], path)
