"""C15 -- killing restore, empty or rm at any instant never strands a payload without info.

E3 crash-point enumeration, two-phase: every position before a mutating system call of trash-restore / trash-empty /
trash-rm runs; then the command (and trash-empty) is re-run from every crash state."""
import os
import sys

from .. import cell, scen, world
from ..explore import crash

PID = 'C15'
LEVEL = 'fault_enumeration'
TECHNIQUE = ('exhaustive crash-point enumeration (model checking of the implementation), two-phase: the real trash-restore / trash-empty / trash-rm are killed before every '
             'mutating system call; every crash state is judged and then the command is re-run from it to completion')
LEVEL_TEXT = ('in every crash state every payload still under files/ must still have its .trashinfo, and an entry being restored must be complete in the trash or complete at '
              'its destination; re-running a killed trash-empty / trash-rm from the crash state must reach the final state of the uncrashed run, and trash-empty after a killed '
              'trash-restore must leave files/ and info/ empty')
LEVEL_NOTE = 'crash = process kill between two system calls; trusted: shim trace completeness for mutating calls'
RULE = ('scenarios: entry kinds {file, deep dir, symlink->dir} x {1, 3 entries (+ a hand-written entry named n.trashinfo.bak for the purging commands)} x command {restore same volume, restore cross-volume, restore --overwrite onto an existing directory, empty, empty 0, empty -i (re-run with -i too), empty with two --trash-dir options, rm *} + two trashed links to one directory (+ restore --overwrite, multi-index '
        'restores in thorough); crash before each mutating syscall + after the last; non-trivial = crash state differs from initial state; distinct = (command, kind, count, operation at death)')
CMDS = ['restore', 'restore-xvol', 'empty', 'empty0', 'rm-star', 'empty-i', 'restore-overwrite-dir', 'empty-2td', 'restore-td', 'rm-slash', 'restore-same-twice']
T2 = '/home/u/T2'
TD = scen.HOME_TRASH


def dimensions(tier):
    return {'kinds': 4, 'counts': 2, 'commands': len(CMDS) + (2 if tier == 'thorough' else 0)}


def scenarios(tier):
    out = []
    for cmd in CMDS + (['restore-multi', 'restore-overwrite'] if tier == 'thorough' else []):
        for n in (1, 3):
            for k in ('file', 'tree', 'ldir', 'ldang'):
                if cmd == 'restore-overwrite-dir' and k != 'tree':
                    continue
                if cmd == 'restore-same-twice' and (k not in ('file', 'tree') or n != 1):
                    continue
                out.append({'kind': k, 'n': n, 'cmd': cmd})
    for cmd in ('rm-star', 'empty', 'empty0'):
        out.append({'kind': 'ldir2', 'n': 3, 'cmd': cmd})          # two trashed links to one and the same directory (+ a file)
    return out


def make_world(s):
    W = scen.base_world(mounts=['/', '/mnt/v1'], cwd='/')
    W.dir('/mnt/v1/w')
    B = '/mnt/v1/w' if s['cmd'] == 'restore-xvol' else '/home/u/w'
    for i in range(s['n']):
        k = s['kind'] if i == 0 else ('file', 'tree')[i % 2]
        if s['kind'] == 'ldir2':
            k = 'ldir' if i < 2 else 'file'
        scen.add_entry(W, '%s/e%d' % (B, i), k)
    return W


def setup(sb, s):
    B = '/mnt/v1/w' if s['cmd'] == 'restore-xvol' else '/home/u/w'
    orig = sb.snapshot()
    env = dict(HOME='/home/u')
    for i in range(s['n']):
        argv = ['trash-put', 'e%d' % i]
        if s['cmd'] == 'restore-xvol':
            # get an entry of another volume into the home trash: force the volume
            argv = ['trash-put', '--force-volume', '/', 'e%d' % i]
        r = sb.run(argv, cwd=B, env=env, now='2020-01-0%dT00:00:00' % (i + 1))
        if r.exit != 0:
            raise cell.HarnessError('HARNESS-SETUP put failed: %s' % r.err[-300:])
    if s['cmd'] == 'restore-same-twice':
        # a second version of e0 is created at the same place and trashed too: both are chosen in one answer (0-1)
        with open(sb.root + B + '/e0', 'w') as f:
            f.write('the second version of e0\n')
        r = sb.run(['trash-put', 'e0'], cwd=B, env=env, now='2020-01-09T00:00:00')
        if r.exit != 0:
            raise cell.HarnessError('HARNESS-SETUP second put failed: %s' % r.err[-300:])
    if s['cmd'] == 'empty-2td':
        # a second trash directory, given with a second --trash-dir, holding one entry of each kind
        for nm, body in (('two', None), ('twodir', 'd')):
            os.makedirs(sb.root + T2 + '/files', exist_ok=True)
            os.makedirs(sb.root + T2 + '/info', exist_ok=True)
            if body is None:
                with open(sb.root + T2 + '/files/' + nm, 'w') as f:
                    f.write('payload in the second trash dir\n')
            else:
                os.makedirs(sb.root + T2 + '/files/' + nm + '/sub')
                with open(sb.root + T2 + '/files/' + nm + '/sub/leaf', 'w') as f:
                    f.write('leaf\n')
            with open(sb.root + T2 + '/info/' + nm + '.trashinfo', 'w') as f:
                f.write('[Trash Info]\nPath=/home/u/w/%s\nDeletionDate=2020-01-06T00:00:00\n' % nm)
    if s['cmd'] == 'restore-overwrite-dir':
        # a directory already stands at the original location (with a child of its own): --overwrite moves the trashed one INTO it
        os.makedirs(sb.root + B + '/e0')
        with open(sb.root + B + '/e0/already-there', 'w') as f:
            f.write('child of the directory in the way\n')
    if s['cmd'] in ('empty', 'empty0', 'rm-star', 'empty-i') and s['n'] == 3:
        # one more entry, written the way another implementation would: its name contains '.trashinfo' before the end
        with open(sb.root + TD + '/files/n.trashinfo.bak', 'w') as f:
            f.write('payload of n.trashinfo.bak\n')
        with open(sb.root + TD + '/info/n.trashinfo.bak.trashinfo', 'w') as f:
            f.write('[Trash Info]\nPath=/home/u/w/n.trashinfo.bak\nDeletionDate=2020-01-05T00:00:00\n')
    if s['cmd'] == 'restore-overwrite':
        with open(sb.root + B + '/e0', 'w') as f:
            f.write('newer file in the way\n')
    return {'B': B, 'orig': {p: list(v[:3]) + ([v[3].decode('latin-1')] if len(v) > 3 else []) for p, v in orig.items() if p.startswith(B + '/')}}


def command(s, ctx):
    c = s['cmd']
    env = dict(HOME='/home/u')
    if c.startswith('restore'):
        reply = '0-%d' % (s['n'] - 1) if (c == 'restore-multi' and s['n'] > 1) else ('0-1' if c == 'restore-same-twice' else '0')
        argv = ['trash-restore', '--sort', 'date'] + (['--overwrite'] if c in ('restore-overwrite', 'restore-overwrite-dir') else []) + \
            (['--trash-dir', '../home/u/.local/share/Trash'] if c == 'restore-td' else []) + ['/']          # (restore-td: the trash directory named explicitly, relative to /)
        return {'argv': argv, 'stdin': reply + '\n', 'cwd': '/', 'env': env}
    argv = {'empty': ['trash-empty'], 'empty0': ['trash-empty', '0'], 'rm-star': ['trash-rm', '*'], 'empty-i': ['trash-empty', '-i'],
            'rm-slash': ['trash-rm', 'e0/'],          # a pattern with a trailing slash (matches no original name today): whatever it purges, a re-run must finish
            'empty-2td': ['trash-empty', '--trash-dir', TD, '--trash-dir', T2]}[c]
    return {'argv': argv, 'cwd': '/', 'env': env, 'now': '2024-05-06T07:08:09', 'stdin': 'y\n' if c == 'empty-i' else None}


def _orig_snap(ctx):
    return {p: tuple(v[:3]) + ((v[3].encode('latin-1'),) if len(v) > 3 else ()) for p, v in ctx['orig'].items()}


def oracle(s, ctx, start, sb, r, at):
    snap = sb.snapshot()
    B = ctx['B']
    orig = _orig_snap(ctx)
    last_op = r.trace[-1][1] if r.trace else None
    key = '%s|%s|%d|%s' % (s['cmd'], s['kind'], s['n'], last_op if at else 'END')
    detail = {'scenario': s, 'exit': r.exit, 'err': r.err[-200:]}
    problems = []
    infos, pays = world.pairs(snap, TD)
    infos0, pays0 = world.pairs(start, TD)
    for nm in pays:
        if nm in pays0 and (nm + '.trashinfo') in infos0 and (nm + '.trashinfo') not in infos:
            problems.append('payload-stranded-without-info:%s' % nm)
    if s['cmd'] == 'empty-2td':
        i_b, p_b = world.pairs(snap, T2)
        i_a, p_a = world.pairs(start, T2)
        for nm in p_b:
            if nm in p_a and (nm + '.trashinfo') in i_a and (nm + '.trashinfo') not in i_b:
                problems.append('payload-stranded-without-info:%s (second trash dir)' % nm)
    if s['cmd'] == 'restore-same-twice':
        for nm in ('e0', 'e0_1'):
            in_trash = (nm + '.trashinfo') in infos and world.same_entry(start, TD + '/files/' + nm, snap, TD + '/files/' + nm)
            if not (in_trash or world.same_entry(start, TD + '/files/' + nm, snap, B + '/e0')):
                problems.append('restored-entry-complete-nowhere:%s' % nm)
    elif s['cmd'].startswith('restore'):
        targets = range(s['n']) if s['cmd'] == 'restore-multi' else [0]
        for i in targets:
            nm = 'e%d' % i
            E = '%s/%s' % (B, nm)
            in_trash = (nm + '.trashinfo') in infos and world.same_entry(start, TD + '/files/' + nm, snap, TD + '/files/' + nm)
            at_dest = world.same_entry(orig, E, snap, E) or (s['cmd'] == 'restore-overwrite-dir' and world.same_entry(orig, E, snap, E + '/' + nm))
            if not (in_trash or at_dest):
                problems.append('restored-entry-complete-nowhere:%s' % nm)
    else:
        # entries not yet purged must be whole or (payload gone/partial, info present)
        pass
    changed = bool(world.diff(start, snap, info_mtime=True))
    # ---- phase 2: re-run from the crash state ------------------------------------------------------
    if at is not None and not problems:
        kw = command(s, ctx)
        env = kw.get('env')
        if s['cmd'].startswith('restore'):
            r2 = sb.run(['trash-empty'], cwd='/', env=env)
            fin = sb.snapshot()
            i2, p2 = world.pairs(fin, TD)
            if i2 or p2:
                problems.append('trash-empty-after-killed-restore-leaves:%s' % (sorted(i2) + sorted(p2))[:3])
        else:
            r2 = sb.run(kw['argv'], cwd='/', env=env, now=kw.get('now'), stdin=kw.get('stdin'))
            fin = sb.snapshot()
            i2, p2 = world.pairs(fin, TD)
            if s['cmd'] == 'rm-slash':
                half = sorted(set(n[:-len('.trashinfo')] for n in i2) ^ set(p2))
                if half:
                    problems.append('re-run-does-not-complete-the-purge:%s' % half[:3])
            elif i2 or p2:
                problems.append('re-run-does-not-complete-the-purge:%s' % (sorted(i2) + sorted(p2))[:3])
        if s['cmd'] == 'empty-2td':
            i3, p3 = world.pairs(fin, T2)
            if i3 or p3:
                problems.append('re-run-does-not-complete-the-purge:%s (second trash dir)' % (sorted(i3) + sorted(p3))[:3])
        outside = world.diff(snap, fin, ignore=[TD, T2])
        if outside:
            problems.append('re-run-touched-outside:%s' % outside[:3])
    if at is None:
        i2, p2 = infos, pays
        if s['cmd'] == 'empty-2td':
            i3, p3 = world.pairs(snap, T2)
            i2, p2 = dict(i2, **i3), set(p2) | set(p3)
        if not s['cmd'].startswith('restore') and s['cmd'] != 'rm-slash' and (i2 or p2):
            problems.append('uncrashed-purge-incomplete')
    if problems:
        what = problems[0].split(':')[0]
        return {'verdict': 'viol', 'sig': 'C15|%s|cmd=%s|kind=%s|died-before=%s' % (what, s['cmd'], s['kind'], last_op if at else 'END'), 'klass': what,
                'nontrivial': key, 'detail': dict(detail, problems=problems[:6]), 'execs': 2}
    return {'verdict': 'ok', 'klass': 'no-stranded-payload', 'nontrivial': changed and key, 'detail': detail, 'execs': 2 if at else 1}


def main(tier, seed):
    return crash.run(sys.modules[__name__], tier, seed)


def replay(path):
    return crash.replay(sys.modules[__name__], path)
