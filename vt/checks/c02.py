"""C02 -- put then restore returns the exact entry to its exact original path.

E1 product over name x kind x trash-dir layout x sort mode x restore scope x interleaved history; every
point runs the real trash-put, the history commands, then the real trash-restore with the index read
from its own listing."""
import sys

from .. import cell, scen, world
from ..explore import product

PID = 'C02'
LEVEL = 'exploration'
TECHNIQUE = ('bounded-exhaustive enumeration (model checking of the implementation): product of names x kinds x trash-dir '
             'layouts x sort modes x restore scopes x short interleaved histories, executed on the real trash-put / trash-restore '
             '(and trash-empty in histories); before/after snapshot equality oracle')
LEVEL_TEXT = ('each point performs a real put -> history -> restore round trip; the oracle demands snapshot(original subtree) == '
              'snapshot(after restore) incl. modes and mtimes, exactly that pair gone from the trash and nothing else changed')
LEVEL_NOTE = 'trusted: CPython/shutil, tmpfs, shim mount rules; names limited to the alphabet (non-UTF-8 names are C16 territory)'
RULE = ('names (24, incl. spaces, newlines, %, leading -, non-ASCII, 255 bytes) x kinds (6) x layout (home, .Trash/uid, .Trash-uid, '
        '--trash-dir, .Trash-uid next to insecure .Trash/uid directories on two volumes, .Trash-uid being a symbolic link, home trash with a 1.4 KB original directory, another volume whose trash directories are blocked + home fallback = a copy across file systems both ways, home trash on its own volume, --trash-dir spelled relative to the working directory of each command) x sort (date,path,none) x scope (cwd=dir, cwd=ancestor, cwd=/, explicit absolute path, path relative to the working directory) x history (6); quick tier '
        'restricts names to 12 (incl. trailing blank / tab / newline inside / %XX / leading dash / non-ASCII / 255 bytes), scopes to 2 and histories to 3; non-trivial = listing printed and index chosen; distinct = '
        'outcome class x all dimensions')
NAMES = ['a.trashinfo.bak', 'a', 'a b', ' lead', 'trail ', 'a\nb', 'a\rb', 'tab\t', '%41', 'a%', '%', '-x', '--', 'é', '日本', '.hidden',
         'a.trashinfo', '*?[', '=', '#', '+', '&;', '"\'', '\\', 'L' * 255, '..notes', '...', '~', '~u', 'e\u0301x', '\u212b']
QNAMES = ['a', 'trail ', 'a\nb', '%41', '-x', '日本', 'tab\t', 'L' * 255, 'a.trashinfo.bak', '.hidden', '..notes', '...', '~', 'e\u0301x']
LAYOUTS = ['home', 'top-sticky', 'top-alt', 'trash-dir', 'top-alt-insecure', 'top-alt-link', 'home-deep', 'vol-fallback', 'home-ownvol', 'trash-dir-rel']
DEEP = '/'.join(('%dé' % i) + 'é' * 99 for i in range(7))          # seven levels of 100 two-byte characters: the Path= line is longer than 4096 bytes
SORTS = ['date', 'path', 'none']
SCOPES = ['dir', 'ancestor', 'root', 'path-arg', 'rel-path-arg']
HISTS = ['none', 'same-second-twin', 'older-same-name', 'unrelated-after', 'parent-removed', 'other-restored-first', 'empty-1-between']


def dimensions(tier):
    q = tier != 'thorough'
    return {'name': len(QNAMES if q else NAMES), 'kind': 6, 'layout': len(LAYOUTS), 'sort': 3,
            'scope': 2 if q else 4, 'history': 3 if q else 7}


def cases(tier):
    q = tier != 'thorough'
    out = []
    for h in (['none', 'same-second-twin', 'parent-removed'] if q else HISTS):
        for sc in (['dir', 'root'] if q else SCOPES):
            for so in SORTS:
                for lay in LAYOUTS:
                    for k in scen.KINDS:
                        for n in (QNAMES if q else NAMES):
                            if sc == 'rel-path-arg' and h == 'parent-removed':
                                continue          # nobody can stand in a directory that was removed and name the entry relative to it
                            out.append({'name': n, 'kind': k, 'lay': lay, 'sort': so, 'scope': sc, 'hist': h})
    if q:
        # the PATH argument given relative to the working directory (quick: without history)
        for so in SORTS:
            for lay in LAYOUTS:
                for k in scen.KINDS:
                    for n in QNAMES:
                        out.append({'name': n, 'kind': k, 'lay': lay, 'sort': so, 'scope': 'rel-path-arg', 'hist': 'none'})
    return out


def _td(tdopt, rel, cwd):
    import os
    return ['--trash-dir', os.path.relpath(tdopt[1], cwd)] if (rel and tdopt) else tdopt


def run_case(c):
    vol = c['lay'].startswith('top-') or c['lay'] == 'vol-fallback'
    B = '/mnt/v1/data/w' if vol else '/home/u/data/w'
    if c['lay'] == 'home-deep':
        B = '/home/u/data/' + DEEP + '/w'
    # (/mnt/v2 is one more volume with an empty trash directory of its own, listed after the others)
    W = scen.base_world(mounts=(['/', '/mnt/v0', '/mnt/v1', '/mnt/v2'] if c['lay'] == 'top-alt-insecure' else ['/', '/mnt/v1', '/mnt/v2']) +
                        (['/home'] if c['lay'] == 'home-ownvol' else []), cwd=B)          # home-ownvol: /home is a mount point, the home trash lives on it
    scen.add_trash_dir(W, '/mnt/v2/.Trash-0')
    if c['lay'] == 'top-alt-insecure':
        # both the entry's volume and a volume listed before it have a .Trash that is not sticky but already contains a $uid directory:
        # trash-put falls back to .Trash-uid, and trash-restore has to skip the insecure directories WITHOUT giving up on the rest
        for v in ('/mnt/v0', '/mnt/v1'):
            W.dir(v + '/.Trash', mode=0o777).dir(v + '/.Trash/0', mode=0o700).dir(v + '/.Trash/0/files', mode=0o700).dir(v + '/.Trash/0/info', mode=0o700)
    if c['lay'] == 'top-alt-link':
        W.dir('/mnt/v1/.Trash-0real', mode=0o700).link('/mnt/v1/.Trash-0', '.Trash-0real')
    W.dir(B, mode=0o751)
    n = c['name']
    E = B + '/' + n
    scen.add_entry(W, E, c['kind'] if not (c['kind'] == 'tree' and c['sort'] == 'path') else 'tree-ro')          # (a third of the trees has no write permission bit anywhere)
    scen.add_entry(W, B + '/other', 'file')
    if c['lay'] == 'top-sticky':
        W.dir('/mnt/v1/.Trash', mode=0o1777)
    tdopt = ['--trash-dir', '/home/u/mytrash'] if c['lay'] in ('trash-dir', 'trash-dir-rel') else []
    rel_td = c['lay'] == 'trash-dir-rel'          # the same directory, every command naming it relative to its own working directory
    putopt, putenv = [], None
    if c['lay'] == 'vol-fallback':
        # both trash directories of the volume are unusable and the home fallback is enabled: the put is a copy across file systems, and so is the restore
        W.file('/mnt/v1/.Trash', 'blocked').file('/mnt/v1/.Trash-0', 'blocked')
        putopt, putenv = ['--home-fallback'], dict(W.env, TRASH_ENABLE_HOME_FALLBACK='1')
    T_OLD, T_US, T_NEW = '2024-01-01T10:00:00', '2024-01-05T10:00:00', '2024-01-09T10:00:00'
    with cell.Sandbox(W.spec()) as sb:
        orig = sb.snapshot()
        h = c['hist']
        if h in ('older-same-name', 'same-second-twin'):
            r = sb.run(['trash-put'] + putopt + _td(tdopt, rel_td, B) + ['--', n], cwd=B, now=T_OLD if h == 'older-same-name' else T_US, env=putenv)
            world.build(sb.root, [x for x in W.spec()['nodes'] if x[1] == E or x[1].startswith(E + '/')])
            # re-created original has to be byte-identical to orig for the oracle: rebuild resets mtimes
            orig = sb.snapshot()
        # directory-like entries are named with two trailing slashes in a third of the points (the entry trashed is still the link / the directory itself)
        spelled = n + '//' if (c['kind'] in ('tree', 'ldir') and c['sort'] == 'none') else n
        r = sb.run(['trash-put'] + putopt + _td(tdopt, rel_td, B) + ['--', spelled], cwd=B, now=T_US, env=putenv)
        if r.exit != 0:
            return {'verdict': 'dontcare', 'klass': 'put-failed', 'detail': r.err[-300:]}
        if h == 'unrelated-after':
            sb.run(['trash-put'] + putopt + _td(tdopt, rel_td, B) + ['other'], cwd=B, now=T_NEW, env=putenv)
        elif h == 'other-restored-first':
            sb.run(['trash-put'] + putopt + _td(tdopt, rel_td, B) + ['other'], cwd=B, now=T_OLD, env=putenv)
            sb.run(['trash-restore'] + _td(tdopt, rel_td, '/') + [B + '/other'], cwd='/', stdin='0\n')
        elif h == 'empty-1-between':
            sb.run(['trash-put'] + putopt + _td(tdopt, rel_td, B) + ['other'], cwd=B, now=T_OLD, env=putenv)
            sb.run(['trash-empty'] + _td(tdopt, rel_td, '/') + ['2'], cwd='/', env=dict(W.env, TRASH_DATE='2024-01-06T10:00:00'))
        elif h == 'parent-removed':
            import shutil
            shutil.rmtree(sb.root + '/'.join(B.split('/')[:-1]))      # removes .../data (with w inside)
        before = sb.snapshot()
        scope = c['scope']
        cwd = {'dir': B, 'ancestor': B.rsplit('/', 2)[0], 'root': '/', 'path-arg': '/outside', 'rel-path-arg': B}[scope]
        if h == 'parent-removed' and scope in ('dir',):
            cwd = '/'            # the directory no longer exists; restore from / instead
        relarg = ['--', n] if n.startswith('-') else [n]
        argv = ['trash-restore', '--sort', c['sort']] + _td(tdopt, rel_td, cwd) + ([E] if scope == 'path-arg' else (relarg if scope == 'rel-path-arg' else []))
        r1 = sb.run(argv, cwd=cwd, stdin='\n')       # listing only (empty reply restores nothing)
        listing = scen.parse_restore_listing(r1.out)
        want = [i for (i, d, p) in listing if p == E and d == T_US.replace('T', ' ')]
        detail = {'argv': argv, 'cwd': cwd, 'listing': listing[:6], 'list_err': r1.err[-300:], 'exit1': r1.exit}
        dims = '|'.join('%s=%s' % (k, c[k] if k != 'name' else name_class(c[k])) for k in ('name', 'kind', 'lay', 'sort', 'scope', 'hist'))
        blame = 'lay=%s|sort=%s' % (c['lay'], c['sort'])
        if h == 'same-second-twin' and len(want) == 2:
            want = want[:1]          # two entries with the same path and second: both must be offered; take one
        elif h == 'same-second-twin':
            want = []
        if len(want) != 1:
            return {'verdict': 'viol', 'sig': 'C02|not-listed-exactly-once|%s|name=%s' % (blame, name_class(n)), 'klass': 'not-listed',
                    'nontrivial': 'notlisted|' + dims, 'detail': detail}
        if world.diff(before, sb.snapshot(), info_mtime=True):
            return {'verdict': 'viol', 'sig': 'C02|listing-changed-state|' + blame, 'klass': 'listing-changed-state', 'detail': detail}
        r2 = sb.run(argv, cwd=cwd, stdin='%d\n' % want[0])
        after = sb.snapshot()
    detail.update(exit=r2.exit, err=r2.err[-300:])
    ok_entry = world.same_entry(orig, E, after, E)
    # which pair was ours: the info in `before` whose date is T_US and path E
    gone = [p for p in before if p not in after]
    new = [p for p in after if p not in before]
    pair_paths = [p for p in gone if '/info/' in p or '/files/' in p]
    infos_gone = [p for p in gone if p.endswith('.trashinfo') and '/info/' in p]
    other_changes = [p for p in world.diff(before, after, info_mtime=True)
                     if not (p == E or p.startswith(E + '/')) and p not in pair_paths and not (p in new and after[p][0] == 'd')]
    if r2.exit != 0 or not ok_entry:
        return {'verdict': 'viol', 'sig': 'C02|not-restored-identically|%s|kind=%s|name=%s' % (blame, c['kind'], name_class(n)),
                'klass': 'not-restored', 'nontrivial': 'notrestored|' + dims, 'detail': dict(detail, ok_entry=ok_entry)}
    if len(infos_gone) != 1 or other_changes:
        return {'verdict': 'viol', 'sig': 'C02|restore-changed-something-else|' + blame, 'klass': 'collateral',
                'nontrivial': 'collateral|' + dims, 'detail': dict(detail, infos_gone=infos_gone, other=other_changes[:8])}
    name_ = infos_gone[0].rsplit('/', 1)[1][:-len('.trashinfo')]
    td = infos_gone[0].rsplit('/', 2)[0]
    if world.under(after, td + '/files/' + name_):
        return {'verdict': 'viol', 'sig': 'C02|payload-left-behind|' + blame, 'klass': 'payload-left', 'detail': detail}
    return {'verdict': 'ok', 'klass': 'round-trip', 'nontrivial': 'ok|' + dims, 'detail': detail}


def name_class(n):
    if len(n) > 200:
        return 'long'
    if '\n' in n or '\r' in n or '\t' in n:
        return 'control-char'
    if any(ord(ch) > 127 for ch in n):
        return 'non-ascii'
    if n.startswith('-'):
        return 'dash'
    if '%' in n:
        return 'percent'
    return 'plain' if n.isalnum() else 'punct'


def main(tier, seed):
    return product.run(sys.modules[__name__], tier, seed)


def replay(path):
    return product.replay(sys.modules[__name__], path)
