"""C12 -- trash-rm removes exactly the entries whose original name matches the pattern.

E1 product: all patterns of <= 3 tokens over a glob alphabet (+ leading-'/' full-path patterns) x name sets
placed in two directories of the home volume and one of another volume; oracle R4 (own matcher)."""
import itertools
import sys

from .. import cell, scen, world
from ..explore import product
from ..ref import glob as R4

PID = 'C12'
LEVEL = 'exploration'
TECHNIQUE = ('bounded-exhaustive enumeration (model checking of the implementation): every pattern of up to 3 tokens over a 9-token glob '
             'alphabet plus full-path patterns x every name set of bounded size, real trash-rm, independent backtracking matcher as oracle')
LEVEL_TEXT = ('all 819 token patterns + 8 full-path patterns are run by the real trash-rm against every subset (size <= 2, thorough <= 3) of 7 '
              'names (case variants, names containing metacharacters) stored in two home-volume directories and one other volume; '
              'the removed set must equal the reference match set and every other pair must stay byte-identical')
LEVEL_NOTE = ('trusted: R4 (cross-checked against fnmatchcase on 32k pairs in the selftest); where wildcard-crossing-"/" makes shell and '
              'fnmatch readings differ the entry is don\'t-care')
RULE = ('patterns: token strings of length 1-3 over {a,A,b,.,*,?,[ab],[!a],[} plus {/home/u/w/a, /home/*/a, /*, /mnt/v1/*, /home/u/w/?, '
        '/home/u/w2/[ab], /home/u/w/a?, ""} x name subsets (<=2 quick, <=3 thorough) of {a,A,ab,b,a*,[ab],a.b,.a,"a "}, each name stored from '
        '/home/u/w, /home/u/w2, /mnt/v1/p (in .Trash-uid, which is a symbolic link to a relocated directory) and /mnt/v1/q (in .Trash/uid); non-trivial = at least one entry matched and at least one did not; distinct = (pattern shape, outcome)')
TOKENS = ['a', 'A', 'b', '.', '*', '?', '[ab]', '[!a]', '[']
FULL = ['e\u0301', '\u00e9', '?\u0301', 'a ', ' a', '/home/u/w/a ', '/mnt/v1/q/a', '/home/u/w/a/', '/home/u//w/a', '/home/u/w/./a', '/home/u/w/b/../a', '/home/u/w2/*/../a', '/mnt/v?/p/a', '/mnt/[v]1/p/ab', '/mnt/v1/p/.a', '.a', '.?', '/home/u/w/a', '/home/*/a', '/*', '/mnt/v1/*', '/home/u/w/?', '/home/u/w2/[ab]', '/home/u/w/a?', '']
NAMES = ['a', 'A', 'ab', 'b', 'a*', '[ab]', 'a.b', '.a', 'a ']
ALT_REAL = '/mnt/v1/.Trash-0real'          # /mnt/v1/.Trash-0 is a symbolic link to this directory (a relocated trash)
DIRS = [('/home/u/w', scen.HOME_TRASH, ''), ('/home/u/w2', scen.HOME_TRASH, '_1'), ('/mnt/v1/p', ALT_REAL, ''),
        ('/mnt/v1/q', '/mnt/v1/.Trash/0', '')]          # the other volume has BOTH kinds of trash directory in use


def patterns():
    out = []
    for k in (1, 2, 3):
        for t in itertools.product(TOKENS, repeat=k):
            out.append(''.join(t))
    return out + FULL


def name_sets(tier):
    out = []
    for k in range(1, (3 if tier == 'thorough' else 2) + 1):
        out += [list(x) for x in itertools.combinations(NAMES, k)]
    return out


def dimensions(tier):
    return {'patterns': len(patterns()), 'name_sets': len(name_sets(tier)), 'dirs_per_name': 4}


def cases(tier):
    return [{'pat': p, 'names': ns} for ns in name_sets(tier) for p in patterns()]


def shape(p):
    return ''.join('L' if ch.isalnum() or ch == '.' else ch for ch in p)[:12]


def run_case(c):
    W = scen.base_world(mounts=['/', '/mnt/v1'], cwd='/')
    W.dir('/mnt/v1/.Trash', mode=0o1777)
    W.dir(ALT_REAL, mode=0o700).link('/mnt/v1/.Trash-0', '.Trash-0real')
    ents = []
    for n in c['names']:
        for d, td, suf in DIRS:
            loc = d + '/' + n
            pv = loc if td == scen.HOME_TRASH else loc[len('/mnt/v1/'):]
            from urllib.parse import quote
            scen.add_trashed(W, td, n + suf, quote(pv, '/'), '2021-01-01T00:00:00', payload=('ldir' if (n, suf) == ('a', '') and td == scen.HOME_TRASH else 'file'), tag=loc)
            ents.append((td, n + suf, loc))
    for n in c['names'][:1]:
        loc = '/home/u/w/' + n
        scen.add_trashed(W, scen.HOME_TRASH, n + '_2', quote(loc, '/'), '2021-02-02T00:00:00', payload='file', tag=loc + ' again')
        ents.append((scen.HOME_TRASH, n + '_2', loc))          # the same path trashed a second time: both must go / both must stay
    deep = '/home/u/' + '/'.join(['\u00e9' * 90] * 9)
    for nm, loc in (('deep-a', deep + '/a'), ('nfd', '/home/u/w3/e\u0301'), ('nfc', '/home/u/w3/\u00e9')):
        scen.add_trashed(W, scen.HOME_TRASH, nm, quote(loc, '/'), '2021-03-03T00:00:00', payload='file', tag=nm)
        ents.append((scen.HOME_TRASH, nm, loc))
    W.dir('/home/u/elsewhere')
    for n in c['names']:
        W.link('/home/u/w2/' + n, '/home/u/elsewhere/zz')          # what lives at the original path today is irrelevant
    W.dir('/home/u/w-real')
    W.link('/home/u/w', '/home/u/w-real')                            # ... and so is what its parent directory resolves to
    with cell.Sandbox(W.spec()) as sb:
        before = sb.snapshot()
        r = sb.run(['trash-rm', c['pat']], cwd='/')
        after = sb.snapshot()
    pat = c['pat']
    detail = {'pattern': pat, 'exit': r.exit, 'err': r.err[-200:], 'entries': []}
    worst = None
    matched = unmatched = 0
    for td, nm, loc in ents:
        subject = loc if pat.startswith('/') else loc.rsplit('/', 1)[1]
        w1 = R4.match(pat, subject) if pat != '' else False
        w2 = R4.match(pat, subject, star_slash=False) if pat != '' else False
        got = scen.entry_state(before, after, td, nm)
        detail['entries'].append([loc, 'match' if w1 else 'no', got])
        if w1 != w2:
            continue      # don't-care: wildcard would have to cross '/'
        matched += w1
        unmatched += not w1
        if got.startswith('half'):
            worst = worst or ('C12|%s' % got, 'half-removed')
        elif w1 and got != 'purged':
            worst = worst or ('C12|matching-entry-kept|shape=%s' % shape(pat), 'kept-wrongly')
        elif not w1 and got != 'kept':
            worst = worst or ('C12|non-matching-entry-removed|shape=%s' % shape(pat), 'removed-wrongly')
    frame = [p for p in world.diff(before, after) if '/files/' not in p and '/info/' not in p]
    if frame:
        worst = worst or ('C12|frame-changed', 'frame')
    if worst:
        return {'verdict': 'viol', 'sig': worst[0], 'klass': worst[1], 'nontrivial': 'viol|' + shape(pat), 'detail': detail}
    return {'verdict': 'ok', 'klass': 'removed==reference', 'nontrivial': bool(matched and unmatched) and ('mixed|' + shape(pat)),
            'detail': detail}


def main(tier, seed):
    return product.run(sys.modules[__name__], tier, seed)


def replay(path):
    return product.replay(sys.modules[__name__], path)
