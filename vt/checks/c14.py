"""C14 -- no purge without consent: --dry-run and a negative answer change nothing.

E1 product, differential: (1) dry-run vs the real run on an identical world; (2) every reply string of the
alphabet at the interactive prompt (-i or isatty(0))."""
import itertools
import sys

from .. import cell, scen, world
from ..explore import faults, product

PID = 'C14'
LEVEL = 'exploration'
TECHNIQUE = ('bounded-exhaustive enumeration (model checking of the implementation), differential: every trash content of the generator x DAYS x '
             'flags is run with --dry-run and for real on identical worlds; every reply string of the alphabet is fed to the interactive guard; '
             'plus exhaustive single-fault injection (deviation bound 1) over the traces of the dry runs and of the refused questions')
LEVEL_TEXT = ('dry-run: the after-snapshot must equal the before-snapshot and the set of existing paths announced as "would remove" must equal the set of paths the real '
              'run removes on an identical world; interactive: for every reply not starting with y/Y (incl. empty and end of input) the snapshot must be unchanged; '
              'the unchanged-snapshot clause is also checked when any single file-system call of a dry run or of a refused run fails')
LEVEL_NOTE = ('trusted: snapshot comparer; the dry-run line for the payload path of an info-without-payload entry is pinned by the repository\'s own test and treated as don\'t-care')
RULE = ('contents: multisets (<=2, thorough <=3) over {old, recent, undated, garbage-date, info-without-payload, tree payload, symlink payload} + orphan payload x DAYS {none,0,1} x '
        'flags {-, --trash-dir, -v, -vv, two volumes, --trash-dir LINK/../dir with a look-alike where a lexical collapse would point}; replies: all strings of length <=2 over {y,Y,n,N,e,s,space} + {"", EOF, yes, no, Yes, " y", nope, "yY", "\\ty"} x {-i, isatty=True} x DAYS {none, 1}, and 6 negative replies when only payloads without .trashinfo are left; '
        'non-trivial = something was eligible for removal; distinct = (part, DAYS, flags or reply class, outcome); fault stage: dry runs (contents <=1, thorough <=2; flags -, --trash-dir, -v) and '
        'refused questions (replies n, "", EOF, " y") x every operation of the fault-free trace x every errno of that call, one fault per run')
NOW = '2024-05-06T07:08:09'
KINDS = ['old', 'recent', 'undated', 'garbage', 'nopayload', 'tree', 'link', 'dangling']
FLAGS = ['-', 'trash-dir', '-v', '-vv', 'twovol', 'trash-dir-dotdot', 'readonly-dirs']
DAYS = [None, 0, 1]
RALPHA = ['y', 'Y', 'n', 'N', 'e', 's', ' ']
REXTRA = ['', None, 'yes', 'no', 'Yes', ' y', 'nope', 'yY', '\ty', 'Ýes', 'y\x00']


def dimensions(tier):
    return {'contents': sum(1 for _ in contents(tier)), 'days': 3, 'flags': 4, 'replies': len(replies()), 'interactive_modes': 3}


def contents(tier):
    for k in range(0, (3 if tier == 'thorough' else 2) + 1):
        for ms in itertools.combinations_with_replacement(KINDS, k):
            yield list(ms)


def replies():
    out = list(REXTRA)
    for k in (1, 2):
        out += [''.join(t) for t in itertools.product(RALPHA, repeat=k)]
    return out


def cases(tier):
    out = []
    for fl in FLAGS:
        for d in DAYS:
            for ms in contents(tier):
                out.append({'part': 'dry', 'ms': ms, 'days': d, 'flags': fl})
    for mode in ('-i', 'tty', '-i+trash-dir'):
        for d in (None, 1):
            for rp in replies():
                out.append({'part': 'ask', 'reply': rp, 'mode': mode, 'days': d})
    # nothing but payloads without .trashinfo is left (they are purged too, so the question has to be asked)
    for mode in ('-i', 'tty'):
        for rp in ('n', '', None, 'no', ' y', 'N'):
            out.append({'part': 'ask', 'reply': rp, 'mode': mode, 'days': None, 'ms': []})
    return out


def fault_stage(tier, cases_, outs):
    """"changes nothing" has a verdict whatever the file system answers: for the selected dry runs and refused questions every
    operation of the fault-free trace answers once with every errno it can return; only the unchanged-snapshot clause is judged"""
    out = []
    for c, o in zip(cases_, outs):
        if not o.get('ops'):
            continue
        if c['part'] == 'dry':
            if c['flags'] not in ('-', 'trash-dir', '-v') or len(c['ms']) > (2 if tier == 'thorough' else 1):
                continue
        elif c['reply'] not in ('n', '', None, ' y') or 'ms' in c:
            continue
        for f in faults.single_faults(o['ops']):
            out.append(dict({k: v for k, v in c.items() if k != 'id'}, faults=[f]))
    return out


def fill(W, td, ms, rel):
    for i, k in enumerate(ms):
        nm = ('e', 'e_1.trashinfo.x', '.e2', 'e.txt')[i % 4]          # the first name is a proper prefix of the second and fourth; '.trashinfo' inside a name; a hidden one
        pv = ('w/%s' if rel else '/home/u/w/%s') % nm
        date = {'old': '2020-01-01T00:00:00', 'recent': NOW, 'undated': None, 'garbage': 'soon'}.get(k, '2020-01-01T00:00:00')
        payload = {'nopayload': None, 'tree': 'tree', 'link': 'ldir', 'dangling': 'ldang'}.get(k, 'file')
        scen.add_trashed(W, td, nm, pv, date, payload=payload, tag=nm)
    W.file(td + '/files/orphan', 'orphan\n')
    W.file(td + '/files/nu8-\udcff', 'a payload without info whose name is not valid UTF-8\n')
    W.file(td + '/directorysizes', '4096 1600000000 e0\n')          # size cache written by other implementations (spec 1.0)


def build(c):
    fl = c.get('flags', '-')
    W = scen.base_world(mounts=['/', '/mnt/v1'], cwd='/')
    ms = c.get('ms', ['old', 'recent', 'tree'])
    tds = [scen.HOME_TRASH]
    argv = ['trash-empty']
    if fl == 'trash-dir':
        tds = ['/home/u/custom']
        argv += ['--trash-dir', '/home/u/custom']
        scen.add_trash_dir(W, scen.HOME_TRASH)
        scen.add_trashed(W, scen.HOME_TRASH, 'untouched', '/home/u/w/untouched', '2000-01-01T00:00:00')
    elif fl == 'trash-dir-dotdot':
        # LINK/../custom : the kernel resolves LINK first (-> /mnt/v1/custom); a lexical collapse names /home/u/custom, a look-alike with the same content
        tds = ['/mnt/v1/custom']
        argv += ['--trash-dir', '/home/u/lk/../custom']
        W.dir('/mnt/v1/sub').link('/home/u/lk', '/mnt/v1/sub')
        scen.add_trash_dir(W, '/home/u/custom')
        fill(W, '/home/u/custom', ms, rel=False)
    elif fl == 'twovol':
        tds = [scen.HOME_TRASH, '/mnt/v1/.Trash-0']
    elif fl in ('-v', '-vv'):
        argv.append(fl)
    for td in tds:
        scen.add_trash_dir(W, td)
        fill(W, td, ms, rel=td.startswith('/mnt'))
        if fl == 'readonly-dirs':
            W.nodes[td + '/files'][2] = 0o555          # files/ and info/ without write permission bits (root ignores them, a dry run must not "repair" them)
            W.nodes[td + '/info'][2] = 0o500
    if c['days'] is not None:
        argv.append(str(c['days']))
    return W, argv, tds


def run_dry(c):
    W, argv, tds = build(c)
    spec = W.spec()
    with cell.Sandbox(spec) as sb:
        before = sb.snapshot()
        flts = c.get('faults') or []
        rd = sb.run(argv + ['--dry-run'], now=NOW, cwd='/', plan={'faults': flts} if flts else None)
        after_dry = sb.snapshot()
        if flts:
            return judge_faulted(c, rd, world.diff(before, after_dry, dir_mtime=True, info_mtime=True), 'dry-run-changed-state', flts, argv + ['--dry-run'])
        printed = [ln[len('would remove '):] for ln in rd.out.split('\n') if ln.startswith('would remove ')]
        canon = {p: d['entry'] for p, d in zip(printed, sb.denote(printed, cwd='/'))} if c['flags'] == 'trash-dir-dotdot' and printed else {}
    with cell.Sandbox(spec) as sb2:
        b2 = sb2.snapshot()
        rr = sb2.run(argv, now=NOW, cwd='/')
        after_real = sb2.snapshot()
    detail = {'argv': argv, 'ms': c['ms'], 'dry_out': rd.out[-600:], 'exit': [rd.exit, rr.exit], 'err': [rd.err[-200:], rr.err[-200:]]}
    dcls = 'none' if c['days'] is None else str(c['days'])
    changed = world.diff(before, after_dry, dir_mtime=True, info_mtime=True)
    announced = set()
    for ln in rd.out.split('\n'):
        if ln.startswith('would remove '):
            announced.add(canon.get(ln[len('would remove '):]) or ln[len('would remove '):])          # (the entry the printed path names for the kernel)
    removed_top = set()
    for p in b2:
        if p not in after_real:
            par = p.rsplit('/', 1)[0]
            if par in after_real:          # top-most removed path
                removed_top.add(p)
    # a name that cannot be written as it is, is announced escaped: map it back to the entry it stands for
    esc = {p.encode('ascii', 'backslashreplace').decode('ascii'): p
           for p in before if any(0xd800 <= ord(ch) <= 0xdfff for ch in p)}
    announced = {esc.get(p, p) for p in announced}
    announced_existing = {p for p in announced if p in before}
    nt = '%s|%s|removed=%s' % (dcls, c['flags'], 'some' if removed_top else 'none')
    if changed:
        return {'verdict': 'viol', 'sig': 'C14|dry-run-changed-state|days=%s' % dcls, 'klass': 'dry-run-changed', 'nontrivial': nt,
                'detail': dict(detail, changed=changed[:8])}
    if announced_existing != removed_top:
        under = sorted(removed_top - announced_existing)
        over = sorted(announced_existing - removed_top)
        what = 'dry-run-under-reports' if under else 'dry-run-over-reports'
        return {'verdict': 'viol', 'sig': 'C14|%s|days=%s|flags=%s' % (what, dcls, c['flags']), 'klass': what, 'nontrivial': nt,
                'detail': dict(detail, under=under[:6], over=over[:6])}
    return {'verdict': 'ok', 'klass': 'dry-run==real-run', 'nontrivial': bool(removed_top) and nt, 'execs': 2, 'detail': detail, 'ops': faults.ops_of(rd.trace)}


def judge_faulted(c, r, changed, what, flts, argv):
    f = flts[0]
    delivered = any(t[0] == f['at'] and t[4] == f['errno'] for t in r.trace)
    detail = {'argv': argv, 'faults': flts, 'exit': r.exit, 'out': r.out[-300:], 'err': r.err[-300:], 'changed': changed[:8]}
    dims = '%s|%s|%s:%s' % (c['part'], c.get('flags') or c.get('mode'), f['op'], f['errno'])
    if changed:
        return {'verdict': 'viol', 'sig': 'C14|%s|after-%s-%s' % (what, f['op'], f['errno']), 'klass': what + '-under-fault', 'nontrivial': delivered and dims,
                'detail': detail, 'delivered': delivered}
    return {'verdict': 'ok', 'klass': 'unchanged-under-fault', 'nontrivial': delivered and dims, 'detail': detail, 'delivered': delivered}


def run_ask(c):
    W, argv, tds = build(dict({'days': c['days'], 'flags': 'trash-dir' if c['mode'] == '-i+trash-dir' else '-'}, **({'ms': c['ms']} if 'ms' in c else {})))
    plan = {}
    if c['mode'] in ('-i', '-i+trash-dir'):
        argv.append('-i')
    else:
        plan['isatty'] = True
    rp = c['reply']
    with cell.Sandbox(W.spec()) as sb:
        before = sb.snapshot()
        flts = c.get('faults') or []
        if flts:
            plan['faults'] = flts
        r = sb.run(argv, now=NOW, cwd='/', stdin=None if rp is None else rp + '\n', plan=plan)
        after = sb.snapshot()
    yes = rp is not None and rp[:1] in ('y', 'Y')
    if flts:
        return judge_faulted(c, r, world.diff(before, after, dir_mtime=False, info_mtime=True), 'purged-without-consent', flts, argv)
    changed = world.diff(before, after, dir_mtime=False, info_mtime=True)
    rcls = 'EOF' if rp is None else ('empty' if rp == '' else ('yes' if yes else 'other'))
    detail = {'argv': argv, 'reply': rp, 'tty': c['mode'], 'exit': r.exit, 'out': r.out[-200:], 'err': r.err[-200:], 'changed': changed[:6]}
    nt = 'ask|%s|%s|%s' % (c['mode'], rcls, 'changed' if changed else 'unchanged')
    if not yes and changed:
        return {'verdict': 'viol', 'sig': 'C14|purged-without-consent|reply=%s' % rcls, 'klass': 'purged-without-consent', 'nontrivial': nt, 'detail': detail}
    if yes and not changed:
        return {'verdict': 'dontcare', 'klass': 'yes-but-nothing-removed', 'nontrivial': nt, 'detail': detail}
    return {'verdict': 'ok', 'klass': 'consent-respected:' + rcls, 'nontrivial': nt, 'detail': detail, 'ops': None if yes else faults.ops_of(r.trace)}


def run_case(c):
    return run_dry(c) if c['part'] == 'dry' else run_ask(c)


def main(tier, seed):
    return product.run(sys.modules[__name__], tier, seed)


def replay(path):
    return product.replay(sys.modules[__name__], path)
