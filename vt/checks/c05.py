"""C05 -- killing trash-put at any instant loses nothing and leaves no orphan payload.

E3 crash-point enumeration: every position before a mutating system call (and after the last) of each put
scenario: entry kind x trash state x route (incl. the cross-volume copy+delete of the home fallback)."""
import sys

from .. import cell, scen, world
from ..explore import crash
from ..ref import trashinfo as R1

PID = 'C05'
LEVEL = 'fault_enumeration'
TECHNIQUE = ('exhaustive crash-point enumeration (model checking of the implementation): the real trash-put is killed before every mutating system call '
             'of every scenario (kinds x trash states x routes incl. cross-device copy+delete); each crash state is a real disk image judged by the oracle')
LEVEL_TEXT = ('all distinct on-disk crash states of each scenario are produced by re-executing the real script with a kill injected inside the hooked system call '
              '(SIGKILL semantics: no handlers, no buffered flush); in each one every argument must be complete at its origin or complete under files/ with its '
              '.trashinfo, and every payload under any files/ must have a present, complete, parseable .trashinfo naming the right location')
LEVEL_NOTE = 'crash = process kill between two system calls; power loss / page-cache reordering is out of scope; trusted: shim trace completeness for mutating calls (T1 transparency test)'
RULE = ('scenarios: kind (6) x trash state (first use, existing, name collision) x route (home, .Trash/uid, .Trash-uid, home-fallback cross-volume) + two-argument (same volume; a mount point second; the same name on another volume second), 250-byte name, -f / plain with every candidate blocked (quick) and -v/-i variants '
        '(thorough); crash before each mutating syscall + after the last; non-trivial = the crash state differs from both the initial and the final state; distinct = (route, '
        'kind, state, operation at which the process died)')
ROUTES = ['home', 'top', 'alt', 'fallback']
STATES = ['cold', 'warm', 'collision', 'collision-dangling']


def dimensions(tier):
    return {'kinds': 6, 'routes': 4, 'trash_states': 4, 'variants': 4 if tier == 'thorough' else 2}


def scenarios(tier):
    out = []
    for route in ROUTES:
        for st in STATES:
            for k in scen.KINDS:
                out.append({'kind': k, 'route': route, 'state': st, 'var': 'one'})
    for route in ROUTES:
        out.append({'kind': 'tree', 'route': route, 'state': 'cold', 'var': 'two'})
        out.append({'kind': 'file', 'route': route, 'state': 'warm', 'var': 'suffix-name'})
        for k in ('file', 'tree'):
            out.append({'kind': k, 'route': route, 'state': 'collision', 'var': 'long-name'})      # NAME.trashinfo exceeds NAME_MAX: both names are shortened
    for route in ('home', 'alt'):
        for k in ('file', 'tree'):
            out.append({'kind': k, 'route': route, 'state': 'warm', 'var': 'then-mountpoint'})      # second argument: a mount point (its move is refused by itself)
            out.append({'kind': k, 'route': route, 'state': 'cold', 'var': 'two-volumes'})          # second argument: same name on another volume
        out.append({'kind': 'tree', 'route': route, 'state': 'warm', 'var': 'from-inside'})             # cwd is x/sub, the argument is ../../x
    for k in ('file', 'tree', 'ldir'):
        for var in ('-f', 'one'):
            out.append({'kind': k, 'route': 'blocked', 'state': 'cold', 'var': var})                # no candidate accepts the entry: it stays, with or without -f
    if tier == 'thorough':
        for route in ROUTES:
            for k in ('file', 'tree', 'ldir'):
                out.append({'kind': k, 'route': route, 'state': 'warm', 'var': 'two'})
                out.append({'kind': k, 'route': route, 'state': 'cold', 'var': '-vv'})
                out.append({'kind': k, 'route': route, 'state': 'collision', 'var': '-i'})
    return out


def _name(s):
    if s['var'] == 'long-name':
        return 'N' * 250
    return 'x.trashinfo' if s['var'] == 'suffix-name' else 'x'


def world_(s):
    route = s['route']
    B = '/home/u/w' if route == 'home' else '/mnt/v1/w'
    W = scen.base_world(mounts=['/', '/mnt/v1', '/mnt/v2'], cwd=B)
    W.dir(B).file('/mnt/v2/inside', 'content of the third volume\n')
    scen.add_entry(W, B + '/' + _name(s), s['kind'])
    if s['var'] == 'two-volumes':
        scen.add_entry(W, '/mnt/v2/w/' + _name(s), s['kind'], tag=' (on the other volume)')
    if s['var'] == 'two':
        scen.add_entry(W, B + '/y', 'file')
    if route == 'top':
        W.dir('/mnt/v1/.Trash', mode=0o1777)
    if route in ('fallback', 'blocked'):
        W.file('/mnt/v1/.Trash', 'blocked').file('/mnt/v1/.Trash-0', 'blocked')
    td = {'home': scen.HOME_TRASH, 'top': '/mnt/v1/.Trash/0', 'alt': '/mnt/v1/.Trash-0', 'fallback': scen.HOME_TRASH, 'blocked': '/mnt/v1/.Trash-0'}[route]
    if s['state'] == 'collision-dangling':
        scen.add_trash_dir(W, td)
        loc = (B + '/x') if td == scen.HOME_TRASH else 'w/x'
        W.file(td + '/info/x.trashinfo', '[Trash Info]\nPath=%s\nDeletionDate=2019-01-01T00:00:00\n' % loc)
        W.link(td + '/files/x', 'target-that-went-away')
    if s['state'] in ('warm', 'collision'):
        scen.add_trash_dir(W, td)
        nm = _name(s) if s['state'] == 'collision' else 'zzz'
        if len(nm) > 200:
            nm = nm[:len(nm) - len('.trashinfo')]          # what a 250-byte name is shortened to: the first put of that name sits there
        loc = (B + '/' + nm) if td == scen.HOME_TRASH else ('w/' + nm)
        scen.add_trashed(W, td, nm, loc, '2019-01-01T00:00:00', payload='tree' if s['kind'] != 'tree' else 'file', tag='older')
        if s['state'] == 'collision':
            W.file(td + '/files/%s_1' % nm[:200], 'orphan payload at the next suffix\n')      # forces a second retry
    return W, B, td


def make_world(s):
    return world_(s)[0]


def setup(sb, s):
    return {}


def command(s, ctx):
    W, B, td = world_(s)
    argv = ['trash-put']
    env = dict(W.env)
    stdin = None
    if s['route'] == 'fallback':
        argv.append('--home-fallback')
        env['TRASH_ENABLE_HOME_FALLBACK'] = '1'
    if s['var'] in ('-vv', '-f'):
        argv.append(s['var'])
    if s['var'] == '-i':
        argv.append('-i')
        stdin = 'y\ny\n'
    argv.append(_name(s) if s['var'] != 'from-inside' else '../../x')
    if s['var'] == 'two':
        argv.append('y')
    if s['var'] == 'then-mountpoint':
        argv.append('/mnt/v2')
    if s['var'] == 'two-volumes':
        argv.append('/mnt/v2/w/' + _name(s))
    return {'argv': argv, 'env': env, 'cwd': B + '/x/sub' if s['var'] == 'from-inside' else B, 'stdin': stdin, 'now': '2024-05-06T07:08:09'}


def oracle(s, ctx, start, sb, r, at):
    W, B, td = world_(s)
    snap = sb.snapshot()
    args = [B + '/' + _name(s)] + ([B + '/y'] if s['var'] == 'two' else []) + (['/mnt/v2/w/' + _name(s)] if s['var'] == 'two-volumes' else [])
    detail = {'scenario': s, 'exit': r.exit, 'err': r.err[-200:]}
    last_op = r.trace[-1][1] if r.trace else None
    key = '%s|%s|%s|%s' % (s['route'], s['kind'], s['state'], last_op if at else 'END')
    changed = bool(world.diff(start, snap, info_mtime=True))
    problems = []
    # (1) every payload under any files/ has a complete, parseable info naming a location
    for tdx, (infos, pays) in scen.trash_state(snap).items():
        for nm in pays:
            was = '%s/files/%s' % (tdx, nm) in start and not ('%s/info/%s.trashinfo' % (tdx, nm) in start)
            if was:
                continue           # an orphan that was there before the run is not trash-put's doing
            raw = infos.get(nm + '.trashinfo')
            if raw is None:
                problems.append('payload-without-info:%s/files/%s' % (tdx, nm))
                continue
            p = R1.parse(raw)
            if R1.conformant(raw) or p['path'] is None:
                problems.append('payload-with-incomplete-info:%s/files/%s' % (tdx, nm))
    # (2) each argument complete at origin or complete in some files/ with info naming it
    for E in args:
        at_origin = world.same_entry(start, E, snap, E)
        in_trash = False
        for tdx, (infos, pays) in scen.trash_state(snap).items():
            for nm in pays:
                raw = infos.get(nm + '.trashinfo')
                if raw is None or '%s/files/%s' % (tdx, nm) in start:
                    continue
                loc, p = scen.trashinfo_location(tdx, raw)
                if loc is not None and scen.location_matches(tdx, loc, E) and world.same_entry(start, E, snap, '%s/files/%s' % (tdx, nm)):
                    in_trash = True
        if not (at_origin or in_trash):
            problems.append('entry-complete-nowhere:%s' % E)
    # (3) pre-existing pairs untouched
    for p_ in start:
        if (p_.startswith(td + '/files/') or p_.startswith(td + '/info/')) and start[p_] != snap.get(p_) and start[p_][0] != 'd':
            problems.append('pre-existing-trash-content-changed:%s' % p_)
    if s['var'] == 'then-mountpoint' and world.under(start, '/mnt/v2') != world.under(snap, '/mnt/v2'):
        problems.append('mount-point-changed')
    if at is None and r.exit != 0 and s['route'] != 'blocked' and s['var'] != 'then-mountpoint':
        problems.append('uncrashed-run-failed')          # (with every candidate blocked the run has to fail - and the entry to stay)
    if problems:
        what = problems[0].split(':')[0]
        return {'verdict': 'viol', 'sig': 'C05|%s|route=%s|kind=%s|died-before=%s' % (what, s['route'], 'dir' if s['kind'] == 'tree' else ('link' if s['kind'].startswith('l') else 'file'),
                                                                                     last_op if at else 'END'),
                'klass': what, 'nontrivial': key, 'detail': dict(detail, problems=problems[:6])}
    return {'verdict': 'ok', 'klass': 'nothing-lost', 'nontrivial': changed and key, 'detail': detail}


def main(tier, seed):
    return crash.run(sys.modules[__name__], tier, seed)


def replay(path):
    return crash.replay(sys.modules[__name__], path)
