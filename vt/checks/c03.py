"""C03 -- every .trashinfo is spec-conformant and decodes back to the exact path and time.

E1 product over names (every byte value, pairs/triples of a special set, lengths, depths, multi-byte
UTF-8), both Path forms (home: absolute; $topdir: relative) and boundary dates.  Oracle R1 is an
independent RFC-2396 percent codec + spec line grammar; then trash-list / trash-restore / trash-rm
must read the same location back."""
import itertools
import sys

from .. import cell, scen, world
from ..explore import product
from ..ref import trashinfo as R1

PID = 'C03'
LEVEL = 'exploration'
TECHNIQUE = ('bounded-exhaustive enumeration (model checking of the implementation): every single byte 1-255 in three name '
             'positions, all pairs (thorough: triples) over a 22-symbol special set, boundary lengths and dates, both Path forms; '
             'real trash-put output judged by an independent reference codec, then read back by the three real readers')
LEVEL_TEXT = ('all names of the stated alphabet are trashed by the real trash-put in the home trash (absolute Path) and in a '
              '$topdir trash (relative Path); the raw .trashinfo bytes are checked against the spec grammar and decoded by an '
              'independent percent-decoder; trash-list (plain and --files), trash-restore and trash-rm are then run and must report/match exactly that path')
LEVEL_NOTE = ('trusted: the reference codec R1 (unit-tested), CPython; names that are not valid UTF-8 are refused by trash-put '
              '(C16) and counted as not-trashed here; dates outside 4-digit years are out of scope')
RULE = ('names: each byte b in 1..255 (b != "/") as "b", "ab", "abc" (bytes >= 0x80 inside valid UTF-8 sequences: all 2-byte code '
        'points on a stride, 3- and 4-byte sequences covering every lead and continuation byte), ordered pairs (thorough: triples) '
        'of the special set, lengths 1/243..255, depth 1-3 with special directory names; x {home, topdir} ; entry kinds {directory, symlink to a file / directory elsewhere, dangling, ..} x 2 depths x 2 names; home trash on its own volume x 3 depths x 4 names; 2-3 arguments in one run x {-, -i, -v} under a clock that advances a minute per reading (dates strictly increasing); dates {1970,2000-02-29,'
        '2038,9999} x microseconds {0,999999}; non-trivial = trash-put succeeded and wrote an info; distinct = outcome class x name class x form')
SPECIAL = ['%', '+', ' ', '\n', '\r', '\t', '=', '[', ']', '#', '?', '&', ';', ':', '\\', '"', "'", '*', '~', '%25', '%2F', '%0A']
DATES = ['1970-01-01T00:00:00', '2000-02-29T23:59:59', '2038-01-19T03:14:08', '9999-12-31T23:59:59']


def names(tier):
    out = []
    for b in range(1, 128):
        ch = chr(b)
        if ch == '/':
            continue
        out += [ch if ch != '.' else '.x', 'a' + ch, 'a' + ch + 'c']
    # invalid single bytes (not UTF-8): put must refuse or handle; one per value
    for b in range(128, 256):
        out.append(bytes([97, b]).decode('utf-8', 'surrogateescape'))
    stride = 1 if tier == 'thorough' else 16
    for cp in range(0x80, 0x800, stride):
        out.append('a' + chr(cp))
    for lead in range(0xE0, 0xF0):
        for mid in range(0x80, 0xC0, 1 if tier == 'thorough' else 8):
            try:
                out.append('a' + bytes([lead, mid, 0x80 + (mid & 0x3f)]).decode('utf-8'))
            except UnicodeDecodeError:
                pass
    for lead in range(0xF0, 0xF5):
        for mid in range(0x80, 0xC0, 1 if tier == 'thorough' else 8):
            try:
                out.append('a' + bytes([lead, mid, 0x80 + (mid & 0x3f), 0xBF - (mid & 0x3f)]).decode('utf-8'))
            except UnicodeDecodeError:
                pass
    for a, b in itertools.product(SPECIAL, repeat=2):
        out.append(a + b)
    if tier == 'thorough':
        for t in itertools.product(SPECIAL, repeat=3):
            out.append(''.join(t))
    # names that are valid UTF-8 but change under Unicode normalisation (decomposed accent, Angstrom sign, Ohm sign, a compatibility ideograph)
    out += ['e\u0301', 'dire\u0301x', '\u212b', '\u2126m', '\uf900']
    for n in [1] + list(range(243, 256)):
        out.append('L' * n)
        if n > 3:
            out.append('é' * (n // 2) + 'x' * (n % 2))
    seen, uniq = set(), []
    for n in out:
        if n not in seen and n not in ('.', '..') and len(n.encode('utf-8', 'surrogateescape')) <= 255:
            seen.add(n)
            uniq.append(n)
    return uniq


def dimensions(tier):
    return {'names': len(names(tier)), 'form': 2, 'depth_variants': 8, 'dates': len(DATES) * 2}


def cases(tier):
    out = []
    for form in ('home', 'topdir'):
        for n in names(tier):
            out.append({'name': n, 'form': form, 'dirs': [], 'date': '2024-05-06T07:08:09', 'us': 0})
        for dirs in (['d 1'], ['%41', 'x\ny'], ['é', '+', '='], ['a%', '#?'], ['..x', ' '], ['日本', '%2F', 'z'], ['mnt', 'v1', 'deep'], ['home', 'u', 'w']):
            for n in ('f', '%', 'a b'):
                out.append({'name': n, 'form': form, 'dirs': dirs, 'date': '2024-05-06T07:08:09', 'us': 0})
        out.append({'name': 'leaf', 'form': form, 'dirs': [('%dé' % i) + 'é' * 118 for i in range(7)], 'date': '2024-05-06T07:08:09', 'us': 0})
        for d in DATES:
            for us in (0, 999999):
                out.append({'name': 'dated', 'form': form, 'dirs': [], 'date': d, 'us': us})
        # the location recorded is the entry's own, whatever the entry is: directories, and symbolic links whose target lives elsewhere
        for kind in ('dir', 'link-file-elsewhere', 'link-dir-elsewhere', 'link-dangling', 'link-up'):
            for dirs in ([], ['d 1', 'e']):
                for n in ('f', 'a b%'):
                    out.append({'name': n, 'form': form, 'dirs': dirs, 'date': '2024-05-06T07:08:09', 'us': 0, 'kind': kind})
    # several arguments in one run under a clock that advances one minute per reading: each entry carries the time IT was trashed
    for form in ('home', 'topdir'):
        for opt in ('-', '-i', '-v'):
            for n in (2, 3):
                out.append({'name': 'multi', 'form': form, 'dirs': [], 'date': '2024-05-06T07:08:09', 'us': 0, 'multi': n, 'opt': opt})
                out.append({'name': 'multi', 'form': form, 'dirs': [], 'date': '2024-05-06T07:08:09', 'us': 0, 'multi': n, 'opt': opt, 'spelled': 1})
    # a trash directory named RELATIVE to the working directory by the writer and by the readers
    for dirs in ([], ['d 1'], ['a', 'b', 'c']):
        for n in ('f', '%41', 'a b'):
            out.append({'name': n, 'form': 'tdrel', 'dirs': dirs, 'date': '2024-05-06T07:08:09', 'us': 0})
    # a home trash that lives on its own volume (/home is a mount point): absolute Paths, read back unchanged by every reader
    for dirs in ([], ['d 1'], ['home', 'u']):
        for n in ('f', '%41', 'a b', 'é'):
            out.append({'name': n, 'form': 'home-ownvol', 'dirs': dirs, 'date': '2024-05-06T07:08:09', 'us': 0})
    return out


def glob_escape(s):
    return ''.join('[%s]' % ch if ch in '*?[' else ch for ch in s)


def nclass(n):
    b = n.encode('utf-8', 'surrogateescape')
    if len(b) > 200:
        return 'long'
    try:
        b.decode('utf-8')
    except UnicodeDecodeError:
        return 'not-utf8'
    if any(x < 0x20 or x == 0x7f for x in b):
        return 'control'
    if any(x >= 0x80 for x in b):
        return 'multibyte%d' % max(len(ch.encode()) for ch in n)
    if '%' in n:
        return 'percent'
    return 'ascii-alnum' if n.isalnum() else 'ascii-punct'


def run_multi(c):
    top = '/mnt/v1' if c['form'] == 'topdir' else '/home/u'
    B = top + '/w'
    W = scen.base_world(mounts=['/', '/mnt/v1'], cwd=B)
    names = ['m%d' % i for i in range(c['multi'])]
    locs = {n: B + '/' + n for n in names}
    args = list(names)
    if c.get('spelled'):
        # the last argument lives elsewhere and is spelled through a symlink and '..': sub -> <top>/other/deep, so sub/../mN is <top>/other/mN
        # (a lexical collapse, or a cache keyed by it, would take it for <cwd>/mN)
        W.dir(top + '/other/deep').link(B + '/sub', top + '/other/deep')
        locs[names[-1]] = top + '/other/' + names[-1]
        args[-1] = 'sub/../' + names[-1]
    for n in names:
        W.file(locs[n], 'payload %s\n' % n)
    argv = ['trash-put'] + ([c['opt']] if c['opt'] != '-' else []) + args
    with cell.Sandbox(W.spec()) as sb:
        before = sb.snapshot()
        r = sb.run(argv, cwd=B, now=c['date'], stdin='y\n' * len(names) if c['opt'] == '-i' else None, plan={'clock_step_us': 60 * 10 ** 6})
        after = sb.snapshot()
        # every reader must then find every one of them at its own location (trash-rm: the LAST one, by its full path)
        rl = sb.run(['trash-list'], cwd='/')
        rm = sb.run(['trash-rm', locs[names[-1]]], cwd='/')
        fin = sb.snapshot()
    dates = []
    recorded = {}
    for td, nm in scen.new_infos(before, after):
        p = R1.parse(scen.info_of(after, td, nm))
        dates.append((p['path'].rsplit(b'/', 1)[-1].decode(), p['date'].decode()))
        loc = p['path'].decode()
        recorded[p['path'].rsplit(b'/', 1)[-1].decode()] = loc if loc.startswith('/') else top + '/' + loc
    dates.sort()
    if r.exit == 0 and sorted(recorded) == names:
        wrong = [n for n in names if recorded[n] != locs[n]]
        listed = sorted(ln[20:] for ln in rl.out.split('\n') if ln)
        gone = [nm for td, nm in scen.new_infos(before, after) if scen.info_of(fin, td, nm) is None]
        if wrong or listed != sorted(locs.values()) or len(gone) != 1:
            return {'verdict': 'viol', 'sig': 'C03|decodes-to-other-path|several-arguments|%s' % ('recorded' if wrong else ('listed' if listed != sorted(locs.values()) else 'rm')),
                    'klass': 'decode-mismatch', 'nontrivial': 'multi|decode', 'detail': {'argv': argv, 'recorded': recorded, 'want': locs, 'listed': listed, 'rm_removed': gone, 'rm_err': rm.err[-200:]}}
    detail = {'argv': argv, 'exit': r.exit, 'err': r.err[-200:], 'dates': dates}
    nt = 'multi|%s|%s|%d' % (c['form'], c['opt'], c['multi'])
    if r.exit != 0 or [d[0] for d in dates] != names:
        return {'verdict': 'viol', 'sig': 'C03|valid-name-not-trashed|multi', 'klass': 'not-trashed', 'nontrivial': nt, 'detail': detail}
    ds = [d[1] for d in dates]
    if any(ds[i] >= ds[i + 1] for i in range(len(ds) - 1)) or ds[0] < c['date']:
        return {'verdict': 'viol', 'sig': 'C03|wrong-date|several-arguments-one-clock-reading', 'klass': 'wrong-date', 'nontrivial': nt, 'detail': detail}
    return {'verdict': 'ok', 'klass': 'each-entry-its-own-time', 'nontrivial': nt, 'detail': detail}


def run_case(c):
    if c.get('multi'):
        return run_multi(c)
    top = '/mnt/v1' if c['form'] == 'topdir' else '/home/u'
    B = top + '/w' + ''.join('/' + d for d in c['dirs'])
    W = scen.base_world(mounts=['/', '/mnt/v1'] + (['/home'] if c['form'] == 'home-ownvol' else []), cwd=B)
    W.dir(B)
    E = B + '/' + c['name']
    kind = c.get('kind', 'file')
    if kind == 'file':
        W.file(E, 'payload\n')
    elif kind == 'dir':
        W.dir(E).file(E + '/inner', 'inner\n')
    else:
        W.dir(top + '/elsewhere').file(top + '/elsewhere/target', 'target\n').dir(top + '/elsewhere/tdir').file(top + '/elsewhere/tdir/x', 'x\n')
        up = '../' * (len(c['dirs']) + 1)
        W.link(E, {'link-file-elsewhere': up + 'elsewhere/target', 'link-dir-elsewhere': top + '/elsewhere/tdir', 'link-dangling': up + 'elsewhere/none', 'link-up': '..'}[kind])
    now = c['date'] + ('.%06d' % c['us'] if c['us'] else '')
    td = scen.HOME_TRASH if c['form'].startswith('home') else '/mnt/v1/.Trash-0'
    tdopt = []
    if c['form'] == 'tdrel':
        import os
        td = '/home/u/T'
        tdopt = ['--trash-dir', os.path.relpath(td, B)]
    Eb = E.encode('utf-8', 'surrogateescape')
    with cell.Sandbox(W.spec()) as sb:
        before = sb.snapshot()
        r = sb.run(['trash-put'] + tdopt + ['--', c['name']], cwd=B, now=now)
        after = sb.snapshot()
        ni = scen.new_infos(before, after)
        detail = {'name': c['name'], 'exit': r.exit, 'err': r.err[-300:]}
        cls = nclass(c['name'])
        dims = '%s|%s|depth=%d%s' % (cls, c['form'], len(c['dirs']), '|' + c['kind'] if c.get('kind') else '')
        if r.exit != 0 or not ni:
            st = scen.classify_put(before, after, E)
            if st['state'] != 'UNTOUCHED':
                return {'verdict': 'viol', 'sig': 'C03|put-failed-halfway|name=%s' % cls, 'klass': 'half', 'detail': detail}
            if cls == 'not-utf8':
                return {'verdict': 'dontcare', 'klass': 'not-trashed(undecodable name; C16)', 'detail': detail}
            return {'verdict': 'viol', 'sig': 'C03|valid-name-not-trashed|name=%s|form=%s' % (cls, c['form']), 'klass': 'not-trashed',
                    'nontrivial': 'nottrashed|' + dims, 'detail': detail}
        tdir, nm = ni[0]
        raw = scen.info_of(after, tdir, nm)
        detail['raw'] = raw.decode('latin-1')
        detail['trashdir'] = tdir
        bad = R1.conformant(raw)
        p = R1.parse(raw)
        if bad:
            return {'verdict': 'viol', 'sig': 'C03|not-conformant|%s|name=%s' % (bad[0].split(':')[0], cls), 'klass': 'not-conformant',
                    'nontrivial': 'bad|' + dims, 'detail': dict(detail, bad=bad)}
        if tdir != td:
            return {'verdict': 'dontcare', 'klass': 'other-trash-dir(C07)', 'detail': detail}
        if c['form'] == 'tdrel':
            loc = p['path'] if p['path'].startswith(b'/') else b'/' + p['path']          # (either form is fine for --trash-dir on the root volume)
            okform = True
        elif c['form'].startswith('home'):
            loc = p['path']
            okform = p['path_raw'].startswith(b'/')
        else:
            rel = p['path']
            okform = not rel.startswith(b'/') and b'..' not in rel.split(b'/')
            loc = b'/mnt/v1/' + rel
        if not okform:
            return {'verdict': 'viol', 'sig': 'C03|wrong-path-form|form=%s' % c['form'], 'klass': 'wrong-form',
                    'nontrivial': 'form|' + dims, 'detail': detail}
        if loc != Eb:
            return {'verdict': 'viol', 'sig': 'C03|decodes-to-other-path|name=%s|form=%s' % (cls, c['form']), 'klass': 'decode-mismatch',
                    'nontrivial': 'decode|' + dims, 'detail': dict(detail, decoded=loc.decode('latin-1'))}
        want_date = c['date'].encode()
        if p['date'] != want_date:
            return {'verdict': 'viol', 'sig': 'C03|wrong-date|us=%d' % c['us'], 'klass': 'wrong-date', 'nontrivial': 'date|' + dims,
                    'detail': dict(detail, want=c['date'])}
        # the three readers
        date_s = c['date'].replace('T', ' ')
        rcwd = B if tdopt else '/'
        rl = sb.run(['trash-list'] + tdopt, cwd=rcwd)
        if rl.out != '%s %s\n' % (date_s, E) or rl.exit != 0:
            return {'verdict': 'viol', 'sig': 'C03|trash-list-reads-differently|name=%s|form=%s' % (cls, c['form']), 'klass': 'list-mismatch',
                    'nontrivial': 'list|' + dims, 'detail': dict(detail, list_out=rl.out, list_err=rl.err[-300:])}
        rf = sb.run(['trash-list', '--files'] + tdopt, cwd=rcwd)
        want_f = '%s %s -> %s/files/%s\n' % (date_s, E, tdopt[1] if tdopt else tdir, nm)          # (the payload is printed under the trash directory as it was named)
        if rf.out != want_f or rf.exit != 0:
            return {'verdict': 'viol', 'sig': 'C03|trash-list--files-reads-differently|name=%s|form=%s' % (cls, c['form']), 'klass': 'list-mismatch',
                    'nontrivial': 'listfiles|' + dims, 'detail': dict(detail, list_out=rf.out, list_err=rf.err[-300:])}
        rr = sb.run(['trash-restore'] + tdopt + ['/'], cwd=rcwd, stdin='\n')
        exp = '%4d %s %s\n' % (0, date_s, E)
        if not rr.out.startswith(exp):
            return {'verdict': 'viol', 'sig': 'C03|trash-restore-reads-differently|name=%s|form=%s' % (cls, c['form']), 'klass': 'restore-mismatch',
                    'nontrivial': 'restore|' + dims, 'detail': dict(detail, restore_out=rr.out, restore_err=rr.err[-300:])}
        if tdopt:
            return {'verdict': 'ok', 'klass': 'conformant+3readers', 'nontrivial': 'ok|' + dims, 'execs': 4, 'detail': detail}          # (trash-rm has no --trash-dir)
        # trash-rm: a different full path must not match, the exact (escaped) one must
        rm0 = sb.run(['trash-rm', glob_escape(E) + 'Z'], cwd='/')
        mid = sb.snapshot()
        if scen.info_of(mid, tdir, nm) is None:
            return {'verdict': 'viol', 'sig': 'C03|trash-rm-matched-other-path', 'klass': 'rm-overmatch', 'detail': detail}
        rm1 = sb.run(['trash-rm', glob_escape(E)], cwd='/')
        fin = sb.snapshot()
        if scen.info_of(fin, tdir, nm) is not None or world.under(fin, '%s/files/%s' % (tdir, nm)) or rm1.exit != 0:
            return {'verdict': 'viol', 'sig': 'C03|trash-rm-reads-differently|name=%s|form=%s' % (cls, c['form']), 'klass': 'rm-mismatch',
                    'nontrivial': 'rm|' + dims, 'detail': dict(detail, rm_err=rm1.err[-300:], rm_exit=rm1.exit)}
    return {'verdict': 'ok', 'klass': 'conformant+3readers', 'nontrivial': 'ok|' + dims, 'execs': 6, 'detail': detail}


def main(tier, seed):
    return product.run(sys.modules[__name__], tier, seed)


def replay(path):
    return product.replay(sys.modules[__name__], path)
