"""C10 -- trash-empty DAYS purges exactly the entries trashed more than DAYS days ago.

E1 product: DAYS x all multisets (size <= 3, thorough 4) of date classes around the threshold x trash-dir
kind x clock seam, against the reference age rule R6."""
import itertools
import sys

from .. import cell, scen, world
from ..explore import product
from ..ref import age

PID = 'C10'
LEVEL = 'exploration'
TECHNIQUE = ('bounded-exhaustive enumeration (model checking of the implementation): DAYS values x every multiset of deletion-date '
             'classes around the threshold x trash-dir kinds x both clock seams, real trash-empty, independent age rule as oracle')
LEVEL_TEXT = ('all multisets of up to 3 (thorough: 4) entries drawn from 15 date classes (threshold-1s, threshold, threshold+1s, now, far past, '
              'future, missing, garbage, empty, impossible calendar date, fractional seconds, trailing space, un-padded, duplicated lines) are '
              'purged by the real trash-empty for 7 DAYS values in 3 kinds of trash dir; purged set must equal the reference set, removals whole, survivors byte-identical')
LEVEL_NOTE = 'trusted: R6 (reference age rule), the fake clock / TRASH_DATE seams; time zones and DST are out of scope (naive local times, as in the code)'
RULE = ('DAYS in {none,0,1,2,7,365,4000000} x multisets of size 1..3 (thorough 1..4) over 15 date classes x {home, .Trash/uid, .Trash-uid, entries spread over all three, the same behind a volume whose .Trash is not sticky} x clock '
        'seam {fake datetime.now, TRASH_DATE}; every fifth point with -i answered y; entry names: ordinary, hidden (.e1), trailing blank, two leading dots, by position; each world also holds an orphan payload and a non-.trashinfo file; non-trivial = at least one entry was '
        'examined against the threshold; distinct = (DAYS, date class, observed state) triples')
NOW = '2024-05-06T07:08:09'
DAYS = [None, 0, 1, 2, 7, 365, 4000000]
CLASSES = ['lim-1s', 'lim', 'lim+1s', 'now', 'farpast', 'future', 'missing', 'garbage', 'emptyval', 'feb30', 'fraction',
           'trailsp', 'unpadded', 'two:old,bad', 'two:bad,old', 'formfeed-after-date', 'formfeed-in-comment']
TDS = ['home', 'top', 'alt', 'mixed', 'mixed-after-insecure', 'tdopt-dotdot']


def dimensions(tier):
    return {'days': len(DAYS), 'date_classes': len(CLASSES), 'multiset_size': 3 if tier != 'thorough' else 4, 'trash_dir': len(TDS), 'seam': 2}


def cases(tier):
    out = []
    maxn = 4 if tier == 'thorough' else 3
    i = 0
    for td in TDS:
        for days in DAYS:
            for n in range(1, maxn + 1):
                for ms in itertools.combinations_with_replacement(range(len(CLASSES)), n):
                    if n >= 3 and tier != 'thorough' and any(CLASSES[x].startswith('formfeed') for x in ms):
                        continue          # the two newest classes appear in multisets of size <= 2 only in the quick tier
                    seams = ['fake', 'env'] if (tier == 'thorough' and n <= 2) else [('fake', 'env')[i % 2]]
                    i += 1
                    for seam in seams:
                        # every fifth point goes through the interactive guard (-i, answered "y"): consent given, the same entries must go
                        out.append({'days': days, 'ms': list(ms), 'td': td, 'seam': seam, 'ask': i % 5 == 0})
    return out


def date_lines(cls, days):
    import datetime
    real = getattr(datetime, '_vt_real_datetime', datetime.datetime)
    now = real.strptime(NOW, '%Y-%m-%dT%H:%M:%S')
    d = days if days not in (None, 4000000) else 3
    lim = now - datetime.timedelta(days=d)
    f = lambda t: t.strftime('%Y-%m-%dT%H:%M:%S')
    s = datetime.timedelta(seconds=1)
    return {'formfeed-after-date': ['DeletionDate=1970-01-01T00:00:00\x0c'],          # not a date: a form feed belongs to the value (only \n ends a line)
            'formfeed-in-comment': ['X-Comment=a\x0cDeletionDate=1970-01-01T00:00:00', 'DeletionDate=' + NOW],          # ... and does not start a new line either
            'lim-1s': ['DeletionDate=' + f(lim - s)], 'lim': ['DeletionDate=' + f(lim)], 'lim+1s': ['DeletionDate=' + f(lim + s)],
            'now': ['DeletionDate=' + NOW], 'farpast': ['DeletionDate=1970-01-01T00:00:00'],
            'future': ['DeletionDate=' + f(now + datetime.timedelta(days=1))], 'missing': [], 'garbage': ['DeletionDate=yesterday'],
            'emptyval': ['DeletionDate='], 'feb30': ['DeletionDate=2020-02-30T00:00:00'], 'fraction': ['DeletionDate=2020-01-01T00:00:00.5'],
            'trailsp': ['DeletionDate=2020-01-01T00:00:00 '], 'unpadded': ['DeletionDate=2020-1-1T1:0:0'],
            'two:old,bad': ['DeletionDate=1999-01-01T00:00:00', 'DeletionDate=garbage'],
            'two:bad,old': ['DeletionDate=garbage', 'DeletionDate=1999-01-01T00:00:00']}[cls]


def run_case(c):
    uid = 0
    tdmap = {'home': scen.HOME_TRASH, 'top': '/mnt/v1/.Trash/0', 'alt': '/mnt/v1/.Trash-0', 'tdopt-dotdot': '/mnt/v1/old'}
    td = tdmap.get(c['td'], scen.HOME_TRASH)
    tds = [td] if not c['td'].startswith('mixed') else [scen.HOME_TRASH, '/mnt/v1/.Trash-0', '/mnt/v1/.Trash/0']
    W = scen.base_world(mounts=['/', '/mnt/v0', '/mnt/v1'] if c['td'] == 'mixed-after-insecure' else ['/', '/mnt/v1'], cwd='/')
    if c['td'] == 'mixed-after-insecure':
        # a volume listed before the others has a .Trash that is NOT sticky, with a $uid directory in it: skipped (C08), and nothing after it may be forgotten
        W.dir('/mnt/v0/.Trash', mode=0o777)
        scen.add_trashed(W, '/mnt/v0/.Trash/0', 'ins', 'w/ins', '1999-01-01T00:00:00', tag='insecure')
    W.dir('/mnt/v1/.Trash', mode=0o1777)
    for t in tds:
        scen.add_trash_dir(W, t)
    ents = []
    for i, ci in enumerate(c['ms']):
        cls = CLASSES[ci]
        t = tds[i % len(tds)]
        raw = '[Trash Info]\nPath=%s\n' % ('/home/u/w/e%d' % i if t == scen.HOME_TRASH else 'w/e%d' % i)
        raw += ''.join(l + '\n' for l in date_lines(cls, c['days']))
        nm = ('e%d', '.e%d', 'e%d ', '..e%d')[i % 4] % i          # ordinary, hidden, trailing blank, two leading dots
        scen.add_trashed(W, t, nm, None, raw=raw, payload=('file', 'ldang', 'tree', 'ldir', 'empty')[(i + len(c['ms'])) % 5])
        ents.append((nm, cls, raw.encode(), t))
    if c['days'] is not None and c['days'] <= 365:
        t0 = tds[0]
        rel = t0 != scen.HOME_TRASH
        raw_new = '[Trash Info]\nPath=%s\nDeletionDate=%s\n' % ('w/keep' if rel else '/home/u/w/keep', NOW)
        raw_old = '[Trash Info]\nPath=%s\nDeletionDate=1999-01-01T00:00:00\n' % ('w/keep.trashinfo' if rel else '/home/u/w/keep.trashinfo')
        scen.add_trashed(W, t0, 'keep', None, raw=raw_new, payload='file', tag='recent')
        scen.add_trashed(W, t0, 'keep.trashinfo', None, raw=raw_old, payload='tree', tag='old')
        ents.append(('keep', 'now', raw_new.encode(), t0))
        ents.append(('keep.trashinfo', 'farpast', raw_old.encode(), t0))
    for t in tds:
        W.file(t + '/files/orphan', 'orphan payload\n')
        W.file(t + '/info/README', 'not a trashinfo\n')
    argv = ['trash-empty'] + (['-i'] if c.get('ask') else []) + ([str(c['days'])] if c['days'] is not None else [])
    if c['td'] == 'tdopt-dotdot':
        # the directory is named as --trash-dir LINK/../old (LINK -> /mnt/v1/data); where a lexical collapse would point there is a look-alike with one old entry
        W.dir('/mnt/v1/data').link('/home/u/usb', '/mnt/v1/data')
        scen.add_trashed(W, '/home/u/old', 'look', '/home/u/w/look', '1990-01-01T00:00:00', tag='look-alike')
        argv += ['--trash-dir', '/home/u/usb/../old']
    env = dict(W.env)
    now = NOW
    if c['td'] in ('top', 'alt', 'mixed') and len(c['ms']) % 2 == 0:
        env['TRASH_VOLUMES'] = '//mnt//v1/'          # the same volume, named through the environment with doubled and trailing slashes
    now_eff = NOW
    if c['seam'] == 'env':
        env['TRASH_DATE'] = NOW
        now = '2001-01-01T00:00:00'        # the fake clock says something else; TRASH_DATE must win
    elif len(c['ms']) % 3 == 0:
        now = now_eff = NOW + '.500000'      # the real clock is rarely at a whole second: an entry dated exactly at the limit second IS older than the limit then
    with cell.Sandbox(W.spec()) as sb:
        before = sb.snapshot()
        r = sb.run(argv, env=env, now=now, cwd='/', stdin='y\n' if c.get('ask') else None)
        after = sb.snapshot()
    detail = {'argv': argv, 'seam': c['seam'], 'exit': r.exit, 'err': r.err[-300:], 'entries': []}
    nts = set()
    worst = None
    dcls = 'none' if c['days'] is None else ('huge' if c['days'] > 100000 else str(c['days']))
    for nm, cls, raw, t in ents:
        want = age.verdict(raw, now_eff, c['days'])
        got = scen.entry_state(before, after, t, nm)
        detail['entries'].append([nm, cls, want, got])
        nts.add('%s|%s|%s' % (dcls, cls, got))
        if got.startswith('half'):
            worst = worst or ('C10|%s|cls=%s|days=%s' % (got, cls, dcls), 'half-removed')
        elif want == 'purge' and got != 'purged':
            worst = worst or ('C10|kept-but-older-than-limit|cls=%s|days=%s' % (cls, dcls), 'kept-wrongly')
        elif want == 'keep' and got != 'kept':
            worst = worst or ('C10|purged-but-not-older-than-limit|cls=%s|days=%s' % (cls, dcls), 'purged-wrongly')
    if c['days'] is None and any(world.under(after, t + '/files/orphan') for t in tds):
        worst = worst or ('C10|orphan-payload-survives-full-empty', 'orphan-survives')
    frame = [p for p in world.diff(before, after) if not any(p.startswith(t + '/') for t in tds)]
    if frame:
        worst = worst or ('C10|frame-changed', 'frame')
        detail['frame'] = frame[:6]
    if worst:
        return {'verdict': 'viol', 'sig': worst[0], 'klass': worst[1], 'nontrivial': False, 'detail': detail}
    out = {'verdict': 'ok', 'klass': 'purged==reference', 'detail': detail}
    out['nontrivial'] = False
    out['nt_keys'] = sorted(nts)
    return out


def main(tier, seed):
    return product.run(sys.modules[__name__], tier, seed)


def replay(path):
    return product.replay(sys.modules[__name__], path)
