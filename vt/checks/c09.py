"""C09 -- trash-list shows exactly what is in the trash after any history of commands.

E2 explicit-state BFS over command histories on the real commands (two volumes), with the bag model R3 stepped
in lock-step; after EVERY transition trash-list is run and compared with the bag."""
import hashlib
import json
import os
import sys

from .. import cell, scen, world
from ..explore import bfs
from ..ref import bag as R3

PID = 'C09'
LEVEL = 'model_checking'
TECHNIQUE = ('explicit-state breadth-first model checking of the implementation: states are canonical disk images, transitions execute the real '
             'trash-put / trash-restore / trash-rm / trash-empty on the state rebuilt from its snapshot; a bag reference model is stepped in lock-step and '
             'trash-list is compared with it after every transition')
LEVEL_TEXT = ('every state reachable by at most d commands (quick d=5, thorough d=6) from the empty trash, and by at most 3 (thorough 5) commands from a second initial state in which one volume holds entries in both .Trash/uid and .Trash-uid, and by at most 2 (thorough 4) from a third one whose .Trash-uid is a symbolic link and a fourth one that holds a symlink to a live directory and a name with a percent escape, over an 18-command alphabet on two volumes (behind a third one whose .Trash is not sticky and must be skipped by every command) is generated, deduplicated by a '
              'canonical hash of the whole disk image, and in every state the output of the real trash-list must equal the bag (multiset of date+path lines) and the pairs on disk must equal the bag')
LEVEL_NOTE = ('exhaustive to the stated depth only; canonicalisation drops directory/.trashinfo mtimes and inode numbers, which no trash-cli code path reads (grep st_mtime|st_ino is empty); '
              'trusted: R3/R4/R5 reference models')
RULE = ('alphabet: one run putting a file and a symlink to it; put of 6 entries (re-created with path-determined content when absent; four of them share the base name "a" - one of these is a dangling symlink, one a symlink to a file in another directory -, one is a directory, two live on /mnt/v1, one of them with a percent escape and a trailing blank in its name), restore with '
        '(scope, reply) in {(/,0),(/home/u/w,0),(/,0-1),(/mnt/v1,0)}, rm {a,*,/home/u/w/*}, empty -i answered y, empty 1, empty 0 (entries of the current day are exactly at the limit and stay), tick (+25 hours, at most 2); BFS to the depth bound; distinct = transition outcome labels')
DEPTH = {'quick': 5, 'thorough': 6}
STATE_CAP = {'quick': 60000, 'thorough': 400000}
BASE = '2024-03-01T12:00:00'
PUTS = {'put:w/a': ('/home/u/w/a', 'file'), 'put:w/d': ('/home/u/w/d', 'tree'), 'put:w/sub/a': ('/home/u/w/sub/a', 'lfile'),
        'put:v1/p/a': ('/mnt/v1/p/a', 'file'), 'put:v1/p/b': ('/mnt/v1/p/b%41 ', 'file'), 'put:w/ln/a': ('/home/u/w/ln/a', 'ldang')}
RESTORES = {'restore:/,0': ('/', '0'), 'restore:w,0': ('/home/u/w', '0'), 'restore:/,0-1': ('/', '0-1'), 'restore:v1,0': ('/mnt/v1', '0')}
RMS = {'rm:a': 'a', 'rm:*': '*', 'rm:/home/u/w/*': '/home/u/w/*'}
ACTIONS = list(PUTS) + ['put2:w/a+w/la'] + list(RESTORES) + list(RMS) + ['empty', 'empty:1', 'empty:0', 'tick']
MOUNTS = ['/', '/mnt/v0', '/mnt/v1']          # /mnt/v0 comes first and has a .Trash that is NOT sticky, with a populated $uid directory: skipped by everybody, always
INSECURE = '/mnt/v0/.Trash/0'
ENV = {'HOME': '/home/u'}


def now_of(day):
    import datetime
    real = getattr(datetime, '_vt_real_datetime', datetime.datetime)
    # a tick is 25 hours: after one tick "1 day ago" lies an hour AFTER the entries of the previous day (a clock that is a few hours off shows)
    return (real.strptime(BASE, '%Y-%m-%dT%H:%M:%S') + datetime.timedelta(days=day, hours=day)).strftime('%Y-%m-%dT%H:%M:%S')


def _snap_of_nodes(nodes):
    snap = {}
    for n in nodes:
        if n[0] == 'd':
            snap[n[1]] = ('d', n[2], 0)
        elif n[0] == 'f':
            snap[n[1]] = ('f', n[2], n[3], n[4].encode('latin-1'))
        else:
            snap[n[1]] = ('l', n[2], 0)
    snap['/'] = ('d', 0o755, 0)
    return snap


def _insecure(W):
    W.dir('/mnt/v0/.Trash', mode=0o777)
    scen.add_trashed(W, INSECURE, 'never', 'p/never', '2001-01-01T00:00:00', payload='file', tag='in an insecure directory')
    return W


def initial(tier):
    W = _insecure(scen.base_world(mounts=MOUNTS))
    W.dir('/home/u/w').dir('/mnt/v1/p')
    out = [{'nodes': W.spec()['nodes'], 'model': {'bag': [], 'day': 0}}]
    if True:
        # second initial state: the volume already has an entry in the user's .Trash-uid, and a sticky .Trash has appeared since,
        # so that new puts go to .Trash/uid and BOTH directories of the volume hold entries
        W2 = _insecure(scen.base_world(mounts=MOUNTS))
        W2.dir('/home/u/w').dir('/mnt/v1/p').dir('/mnt/v1/.Trash', mode=0o1777)
        scen.add_trashed(W2, '/mnt/v1/.Trash-0', 'old', 'p/old', '2024-02-20T12:00:00', payload='file', tag='pre-existing')
        nodes = W2.spec()['nodes']
        dg = digest_of(_snap_of_nodes(nodes), '/mnt/v1/.Trash-0/files/old')
        out.append({'nodes': nodes, 'model': {'bag': [['/mnt/v1/p/old', '2024-02-20T12:00:00', dg, '/mnt/v1/.Trash-0']], 'day': 0},
                    'max_depth': 3 if tier != 'thorough' else 5})
        # third initial state: the user's $topdir/.Trash-uid is a symbolic link to a directory of the same volume
        # (trash-put trashes through it; every reader has to look there too)
        W3 = _insecure(scen.base_world(mounts=MOUNTS))
        W3.dir('/home/u/w').dir('/mnt/v1/p').dir('/mnt/v1/.Trash-0real', mode=0o700).link('/mnt/v1/.Trash-0', '.Trash-0real')
        out.append({'nodes': W3.spec()['nodes'], 'model': {'bag': [], 'day': 0}, 'max_depth': 2 if tier != 'thorough' else 4})
        # fourth initial state: the home trash already holds a symbolic link to a live directory and a file whose name contains a percent escape
        W4 = _insecure(scen.base_world(mounts=MOUNTS))
        W4.dir('/home/u/w').dir('/mnt/v1/p').dir('/home/u/live').file('/home/u/live/inner', 'alive\n')
        scen.add_trashed(W4, scen.HOME_TRASH, 'lnk', '/home/u/w/lnk', '2024-02-21T12:00:00', payload=None)
        W4.link(scen.HOME_TRASH + '/files/lnk', '/home/u/live')
        scen.add_trashed(W4, scen.HOME_TRASH, 'My%20File', '/home/u/w/My%2520File', '2024-02-22T12:00:00', payload='file', tag='percent')
        nodes4 = W4.spec()['nodes']
        s4 = _snap_of_nodes(nodes4)
        bag4 = [['/home/u/w/lnk', '2024-02-21T12:00:00', digest_of(s4, scen.HOME_TRASH + '/files/lnk'), scen.HOME_TRASH],
                ['/home/u/w/My%20File', '2024-02-22T12:00:00', digest_of(s4, scen.HOME_TRASH + '/files/My%20File'), scen.HOME_TRASH]]
        out.append({'nodes': nodes4, 'model': {'bag': sorted(bag4), 'day': 0}, 'max_depth': 2 if tier != 'thorough' else 4})
    return out


def key_of(st):
    # only used for initial states: hash of nodes through a sandbox-free canonical form
    return world.canon_hash(_snap_of_nodes(st['nodes']), extra=json.dumps(st['model']['day']))


def same_model(a, b):
    return a == b


def digest_of(snap, path):
    h = hashlib.sha1()
    for rel, v in sorted(world.under(snap, path).items()):
        h.update(repr((rel, world.norm(v, dir_mtime=False))).encode('utf-8', 'surrogateescape'))
    return h.hexdigest()[:12]


def spec_of(nodes):
    return {'nodes': nodes, 'mounts': MOUNTS, 'env': ENV, 'uid': 0, 'cwd': '/home/u/w'}


def disk_bag(snap):
    """the bag as read from disk with the reference reader R1 (pairs only)"""
    from ..ref import trashinfo as R1
    out, problems = [], []
    linked = {os.path.normpath(os.path.join(os.path.dirname(p), v[1])): p for p, v in snap.items() if v[0] == 'l' and os.path.basename(p) == '.Trash-0'}
    for td, (infos, pays) in scen.trash_state(snap).items():
        if td == INSECURE:
            if sorted(infos) != ['never.trashinfo'] or sorted(pays) != ['never']:
                problems.append('insecure-directory-touched:%s' % td)
            continue
        for nm in pays:
            if nm + '.trashinfo' not in infos:
                problems.append('payload-without-info:%s/files/%s' % (td, nm))
        for inm, raw in infos.items():
            nm = inm[:-len('.trashinfo')]
            if nm not in pays:
                problems.append('info-without-payload:%s/info/%s' % (td, inm))
                continue
            p = R1.parse(raw)
            loc = p['path'].decode('utf-8', 'surrogateescape')
            if not loc.startswith('/'):
                top = td.rsplit('/', 1)[0] if '/.Trash-' in td else td.rsplit('/', 2)[0]
                loc = top + '/' + loc
            out.append([loc, p['date'].decode(), digest_of(snap, '%s/files/%s' % (td, nm)), linked.get(td, td)])
    return sorted(out), problems


def apply(sb, model, action):
    """run the action on the sandbox, return (new model, label, violation or None, execs)"""
    bag, day = model['bag'], model['day']
    now = now_of(day)
    before = sb.snapshot()
    execs = 0
    viol = None
    label = action.split(':')[0]
    if action in PUTS:
        path, kind = PUTS[action]
        if not world.under(before, path):
            W = world.World()
            W.nodes, W.order = {}, []
            scen.add_entry(W, path, kind)
            # path-determined, history-independent mtimes
            nodes = [W.nodes[p] for p in W.order if p == path or p.startswith(path + '/')]
            for i, n in enumerate(nodes):
                n[3] = (world.T0 + 77 + i) * 10 ** 9
            import os
            os.makedirs(sb.root + path.rsplit('/', 1)[0], exist_ok=True)
            world.build(sb.root, nodes)
            before = sb.snapshot()
        dg = digest_of(before, path)
        r = sb.run(['trash-put', path], env=ENV, cwd='/', now=now)
        execs += 1
        td = scen.HOME_TRASH if path.startswith('/home') else ('/mnt/v1/.Trash/0' if before.get('/mnt/v1/.Trash', ('x',))[0] == 'd' else '/mnt/v1/.Trash-0')
        if r.exit != 0:
            viol = ('C09|put-failed', 'put-failed', {'err': r.err[-300:]})
        bag2 = R3.put(bag, path, now, dg, td)
        label = 'put(ok)'
    elif action == 'put2:w/a+w/la':
        # ONE trash-put run naming a file and a symbolic link to it: two entries, two lines
        pa, pl = '/home/u/w/a', '/home/u/w/la'
        if len(bag) > 0 or day > 0:
            return {'bag': bag, 'day': day}, 'put2(only offered on an empty trash)', None, 0          # keeps the quick state space in bounds
        import os
        os.makedirs(sb.root + '/home/u/w', exist_ok=True)
        if not world.under(before, pa):
            world.build(sb.root, [['f', pa, 0o640, (world.T0 + 77) * 10 ** 9, 'content of %s\n' % pa]])
        if not world.under(before, pl):
            world.build(sb.root, [['l', pl, 'a', (world.T0 + 78) * 10 ** 9]])
        before = sb.snapshot()
        dga, dgl = digest_of(before, pa), digest_of(before, pl)
        r = sb.run(['trash-put', pa, pl], env=ENV, cwd='/', now=now)
        execs += 1
        if r.exit != 0:
            viol = ('C09|put-failed', 'put-failed', {'err': r.err[-300:]})
        bag2 = R3.put(R3.put(bag, pa, now, dga, scen.HOME_TRASH), pl, now, dgl, scen.HOME_TRASH)
        label = 'put2(ok)'
    elif action in RESTORES:
        scope, reply = RESTORES[action]
        r0 = sb.run(['trash-restore', scope], env=ENV, cwd='/', stdin='\n')
        listing = scen.parse_restore_listing(r0.out)
        want_listing = sorted((e[1].replace('T', ' '), e[0]) for e in bag if scope == '/' or e[0] == scope or e[0].startswith(scope + '/'))
        if sorted((d, p) for _, d, p in listing) != want_listing:
            viol = ('C09|restore-listing-differs-from-bag', 'restore-listing', {'listing': listing, 'want': want_listing})
        r = sb.run(['trash-restore', scope], env=ENV, cwd='/', stdin=reply + '\n')
        execs += 2
        bag2, done, refused, kind = R3.restore(bag, listing, reply, lambda p: bool(world.under(before, p)))
        if kind == 'listed-entry-not-in-bag' and not viol:
            viol = ('C09|restore-offers-entry-not-in-bag', 'restore-listing', {'listing': listing})
        label = 'restore(%s,%s)' % (kind, 'refused' if refused else ('%d' % len(done)))
    elif action in RMS:
        r = sb.run(['trash-rm', RMS[action]], env=ENV, cwd='/')
        execs += 1
        bag2 = R3.rm(bag, RMS[action])
        label = 'rm(%d removed)' % (len(bag) - len(bag2))
    elif action in ('empty', 'empty:1', 'empty:0'):
        days = None if action == 'empty' else int(action.split(':')[1])
        # the unconditional purge goes through the interactive guard (-i, answered y), the DAYS purges run unattended
        r = sb.run(['trash-empty'] + (['-i'] if days is None else [str(days)]), env=ENV, cwd='/', now=now, stdin='y\n' if days is None else None)
        execs += 1
        bag2 = R3.empty(bag, now, days)
        label = 'empty%s(%d removed)' % ('' if days is None else str(days), len(bag) - len(bag2))
    else:
        if day >= 2:
            return {'bag': bag, 'day': day}, 'tick(capped)', None, 0
        return {'bag': bag, 'day': day + 1}, 'tick', None, 0
    return {'bag': bag2, 'day': day}, label, viol, execs


def observe(sb, model):
    """the invariant: trash-list == bag, disk pairs == bag"""
    r = sb.run(['trash-list'], env=ENV, cwd='/')
    lines = sorted(l for l in r.out.split('\n') if l)
    want = sorted('%s %s' % (e[1].replace('T', ' '), e[0]) for e in model['bag'])
    snap = sb.snapshot()
    if lines != want:
        return snap, ('C09|trash-list-differs-from-bag|%s' % ('missing-line' if len(lines) < len(want) else ('extra-line' if len(lines) > len(want) else 'wrong-line')),
                      'list-mismatch', {'list': lines, 'bag': want, 'err': r.err[-200:]})
    db, problems = disk_bag(snap)
    if problems:
        return snap, ('C09|%s' % problems[0].split(':')[0], 'disk-pairs-broken', {'problems': problems})
    if db != sorted(model['bag']):
        return snap, ('C09|disk-pairs-differ-from-bag', 'disk-mismatch', {'disk': db, 'bag': sorted(model['bag'])})
    return snap, None


def step(task):
    st, action = task['state'], task['action']
    with cell.Sandbox(spec_of(st['nodes'])) as sb:
        model2, label, viol, execs = apply(sb, st['model'], action)
        snap, v2 = observe(sb, model2) if action != 'tick' else (sb.snapshot(), None)
        execs += 1
    viol = viol or v2
    if viol:
        viol = (viol[0], viol[1], dict(viol[2], history=task.get('hist', []) + [action]))
    key = world.canon_hash(snap, extra=json.dumps(model2['day']))
    return {'key': key, 'state': {'nodes': world.to_nodes(snap), 'model': model2}, 'viol': viol, 'label': label, 'execs': execs}


def replay_history(case):
    """re-execute a history from the initial state without the explorer"""
    st = initial('thorough')[case.get('initial', 0)]
    out = {'verdict': 'ok', 'klass': 'history-ok'}
    hist = []
    for a in case['history']:
        o = step({'state': st, 'action': a, 'hist': hist})
        hist.append(a)
        if o['viol']:
            return {'verdict': 'viol', 'sig': o['viol'][0], 'klass': o['viol'][1], 'detail': o['viol'][2]}
        st = o['state']
    return out


def main(tier, seed):
    return bfs.run(sys.modules[__name__], tier, seed)


def replay(path):
    return bfs.replay(sys.modules[__name__], path)
