"""C04 -- a trashed entry is never overwritten: names stay unique, also under concurrency.

(a) E2: all put-histories over same-named entries of different kinds from trash directories that already hold
orphans, plus every random-suffix answer sequence beyond 100 entries;  (b) E5: ALL interleavings of the visible
file-system operations of 2-3 concurrent real trash-put processes (warm trash and first use)."""
import hashlib
import itertools
import json
import sys

from .. import cell, pool, scen, world
from ..explore import sched

PID = 'C04'
LEVEL = 'model_checking'
TECHNIQUE = ('stateful model checking of the implementation: (a) explicit-state search over all put histories from orphan-laden trash directories and all random-suffix answer sequences; '
             '(b) exhaustive interleaving exploration (explicit-state BFS over schedules, no preemption bound; preemption-bounded for the largest harness) of the file-system operations of '
             '2-3 concurrent real trash-put processes under a cooperative scheduler that owns every access to the shared trash directory')
LEVEL_TEXT = ('every schedule of the visible operations of the concurrent processes is executed on real forked processes sharing one sandbox; in every reachable state every payload must have '
              'its info, and in every terminal state #successful processes == #new complete pairs with exactly the trashed payloads, nothing nested, nothing lost; sequentially, after every '
              'put of every history the old pairs must be byte-identical and exactly one new complete pair must hold the trashed entry')
LEVEL_NOTE = ('visible = operations with an entry path in the shared zone (trash dir and its not-yet-existing ancestors); the independence of all other operations is checked by an audit over '
              'the recorded traces, a hit is a harness error; state hashing uses the observation history of each process (sound, finer than necessary)')
RULE = ('(a) histories of length <= 4 (thorough 6) over {put file a from d1, put dir a from d2, put symlink a from d3} from 10 initial trash states (empty, orphan file payload, orphan empty file, orphan dangling-link payload, orphan dir payload, files/ relocated behind a symbolic link, an info file at the first name and a payload directory at the next, one run with same-named arguments on two volumes (all orders, cold / warm), two same-named arguments after 100 taken names, a trash directory named as --trash-dir LINK/../T with look-alikes where a lexical collapse would point, '
        'orphan info, both at a_1); names of 244-255 bytes trashed three times (truncation branch); 100 pre-existing entries + 3 puts x all random answer sequences of length 4 over {existing pair, orphan payload, orphan info, fresh}; (b) concurrent harnesses: '
        '2 puts warm, 2 puts cold (first use, the makedirs race), file+dir mix warm, 3 puts warm (thorough: unbounded; quick: preemption bound 2), 2 puts into .Trash-uid cold; distinct = terminal outcome classes per harness')
B = '/home/u'
TD = scen.HOME_TRASH
ASSUMPTIONS = ['concurrency = separate processes whose only shared state is the file system; memory-model effects do not exist at this level']


# =============================================================================================== (b) E5
def scenarios(tier):
    q = tier != 'thorough'
    out = [
        {'name': 'warm-2files', 'procs': [['d1', 'file'], ['d2', 'file']], 'trash': 'warm'},
        {'name': 'warm-file+dir', 'procs': [['d1', 'file'], ['d2', 'tree']], 'trash': 'warm'},
        {'name': 'warm-orphan-dir-payload', 'procs': [['d1', 'file'], ['d2', 'file']], 'trash': 'warm-orphan'},
        {'name': 'alt-cold-2files', 'procs': [['v1', 'file'], ['v2', 'file']], 'trash': 'alt-cold'},
        {'name': 'warm-same-file-twice', 'procs': [['d1', 'file'], ['d1', 'file']], 'trash': 'warm', 'same': True},
        # the same file given to two processes while the volume's trash directory does not exist yet: the loser fails AFTER the directories were made
        {'name': 'alt-cold-same-file-twice', 'procs': [['v1', 'file'], ['v1', 'file']], 'trash': 'alt-cold', 'same': True, 'bound': 2},
    ]
    if q:
        out.append({'name': 'cold-2files(pb2)', 'procs': [['d1', 'file'], ['d2', 'file']], 'trash': 'cold', 'bound': 2})
        out.append({'name': 'warm-3files(pb1)', 'procs': [['d1', 'file'], ['d2', 'file'], ['d3', 'file']], 'trash': 'warm', 'bound': 1})
    else:
        out.append({'name': 'cold-2files', 'procs': [['d1', 'file'], ['d2', 'file']], 'trash': 'cold'})
        out.append({'name': 'warm-3files', 'procs': [['d1', 'file'], ['d2', 'file'], ['d3', 'file']], 'trash': 'warm'})
        out.append({'name': 'cold-3files(pb1)', 'procs': [['d1', 'file'], ['d2', 'file'], ['d3', 'tree']], 'trash': 'cold', 'bound': 1})
    return out


def make_world(scn):
    W = scen.base_world(mounts=['/', '/mnt/v1'], cwd=B)
    for d, kind in scn['procs']:
        base = ('/mnt/v1/' + d) if d.startswith('v') else (B + '/' + d)
        scen.add_entry(W, base + '/a', kind, tag=' from ' + d)
    if scn['trash'].startswith('warm'):
        scen.add_trash_dir(W, TD)
        scen.add_trashed(W, TD, 'zz', B + '/zz', '2019-01-01T00:00:00', tag='old')
    if scn['trash'] == 'warm-orphan':
        W.dir(TD + '/files/a', mode=0o755).file(TD + '/files/a/keep', 'orphan dir payload content\n')
    return W


def procs(scn):
    out = []
    for d, kind in scn['procs']:
        base = ('/mnt/v1/' + d) if d.startswith('v') else (B + '/' + d)
        out.append({'argv': ['trash-put', 'a'], 'cwd': base, 'env': {'HOME': B}, 'now': '2024-05-06T07:08:09'})
    return out


def shared(scn):
    if scn['trash'] == 'alt-cold':
        return ['/mnt/v1/.Trash-0', '/mnt/v1/.Trash'] + (['/mnt/v1/' + scn['procs'][0][0]] if scn.get('same') else [])
    if scn.get('same'):
        return [TD, B + '/' + scn['procs'][0][0]]        # the contended file is shared state too
    return [B + '/.local'] if scn['trash'] == 'cold' else [TD]


def _td(scn):
    return '/mnt/v1/.Trash-0' if scn['trash'] == 'alt-cold' else TD


def invariant(scn, snap):
    td = _td(scn)
    infos, pays = world.pairs(snap, td)
    for nm in pays:
        if nm + '.trashinfo' not in infos and not (scn['trash'] == 'warm-orphan' and nm == 'a'):
            return ('C04|payload-without-info-in-a-reachable-state', 'payload-without-info', {'payload': nm, 'trash': td})
    return None


def terminal(scn, snap, results):
    td = _td(scn)
    infos, pays = world.pairs(snap, td)
    orig = make_world(scn)
    okp = [r for r in results if r['exit'] == 0]
    new = sorted(nm for nm in pays if nm != 'zz' and not (scn['trash'] == 'warm-orphan' and nm == 'a'))
    owner = []
    for (d, kind) in scn['procs']:
        tagb = (' from ' + d).encode()
        got = [nm for nm in new if any(v[0] == 'f' and tagb in v[3] for v in world.under(snap, '%s/files/%s' % (td, nm)).values())]
        owner.append('%s->%s' % (d, '+'.join(got) or '-'))
    label = 'exits=%s %s' % (''.join('0' if r['exit'] == 0 else 'x' for r in results), ' '.join(owner))
    detail = {'results': results, 'infos': sorted(infos), 'payloads': sorted(pays)}
    if any(r['budget'] for r in results):
        return {'label': label, 'viol': ('C04|process-never-finishes', 'livelock', detail)}
    complete = [nm for nm in new if nm + '.trashinfo' in infos]
    stray = [i for i in infos if i[:-len('.trashinfo')] not in pays]
    if stray:
        return {'label': label, 'viol': ('C04|info-without-payload-left-behind', 'stray-info', dict(detail, stray=stray))}
    if len(complete) != len(okp) or len(new) != len(complete):
        return {'label': label, 'viol': ('C04|successes-%d-but-complete-pairs-%d' % (len(okp), len(complete)), 'lost-or-extra-pair', detail)}
    # payloads are exactly the trashed entries (each original matched by exactly one payload)
    osnap = {}
    spec = orig.spec()
    for n in spec['nodes']:
        osnap[n[1]] = ('d', n[2], n[3]) if n[0] == 'd' else (('f', n[2], n[3], n[4].encode('latin-1')) if n[0] == 'f' else ('l', n[2], n[3]))
    want = []
    if scn.get('same'):
        # both processes were given the SAME file: exactly one can win; the loser must fail cleanly
        d0 = scn['procs'][0][0]
        base = ('/mnt/v1/' + d0) if d0.startswith('v') else (B + '/' + d0)
        if len(okp) != 1 or world.under(snap, base + '/a') or len(complete) != 1 or \
                not world.same_entry(osnap, base + '/a', snap, '%s/files/%s' % (td, complete[0]), dir_mtime=False):
            return {'label': label, 'viol': ('C04|same-file-trashed-by-two-processes-not-exactly-once', 'same-file', detail)}
        return {'label': label}
    for (d, kind), r in zip(scn['procs'], results):
        base = ('/mnt/v1/' + d) if d.startswith('v') else (B + '/' + d)
        if r['exit'] == 0:
            want.append(base + '/a')
            if world.under(snap, base + '/a'):
                return {'label': label, 'viol': ('C04|exit-0-but-entry-still-at-origin', 'not-moved', detail)}
        elif not world.same_entry(osnap, base + '/a', snap, base + '/a', dir_mtime=False):
            return {'label': label, 'viol': ('C04|failed-process-damaged-its-entry', 'damaged', detail)}
    used = set()
    for w in want:
        hit = [nm for nm in complete if nm not in used and world.same_entry(osnap, w, snap, '%s/files/%s' % (td, nm), dir_mtime=False)]
        if not hit:
            return {'label': label, 'viol': ('C04|trashed-entry-not-found-intact-among-payloads', 'payload-lost-or-merged', dict(detail, missing=w))}
        used.add(hit[0])
    if scn['trash'].startswith('warm'):
        if 'zz.trashinfo' not in infos or not world.same_entry(osnap, TD + '/files/zz', snap, TD + '/files/zz', dir_mtime=False):
            return {'label': label, 'viol': ('C04|pre-existing-pair-changed', 'old-pair-changed', detail)}
    if scn['trash'] == 'warm-orphan' and not world.same_entry(osnap, TD + '/files/a', snap, TD + '/files/a', dir_mtime=False):
        return {'label': label, 'viol': ('C04|orphan-payload-merged-into-or-replaced', 'orphan-changed', detail)}
    return {'label': label}


def replay_case(case):
    if 'schedule' in case:
        o = sched.execute(sys.modules[__name__], case['scn'], case['schedule'])
        pool.cleanup()
        if o['inv_viol']:
            v = o['inv_viol'][1]
            return {'verdict': 'viol', 'sig': v[0], 'klass': v[1], 'detail': v[2]}
        if o.get('term', {}).get('viol'):
            v = o['term']['viol']
            return {'verdict': 'viol', 'sig': v[0], 'klass': v[1], 'detail': v[2]}
        return {'verdict': 'ok', 'klass': 'schedule-ok', 'detail': o.get('term')}
    return seq_case(case)


# =============================================================================================== (a) E2
SEQ_ACTIONS = ['file', 'tree', 'ldang']
INITS = ['empty', 'orphan-file', 'orphan-empty-file', 'orphan-dangling-link', 'orphan-dir', 'orphan-info', 'both-at-a_1', 'info-a+orphan-a_1', 'files-symlinked', 'td-dotdot']
STORE = '/home/u/.local/share/store'


def seq_world(init):
    W = scen.base_world(cwd=B)
    for i, k in enumerate(SEQ_ACTIONS):
        W.dir('%s/s%d' % (B, i))
    scen.add_trash_dir(W, TD)
    if init == 'orphan-file':
        W.file(TD + '/files/a', 'orphan file payload\n')
    elif init == 'orphan-empty-file':
        W.file(TD + '/files/a', '')          # a zero-length payload is a payload too
    elif init == 'orphan-dangling-link':
        W.link(TD + '/files/a', '/media/unplugged/a')          # a trashed symbolic link whose target is gone (and whose info was lost): still somebody's payload
    elif init == 'orphan-dir':
        W.dir(TD + '/files/a').file(TD + '/files/a/keep', 'orphan dir payload\n')
    elif init == 'orphan-info':
        W.file(TD + '/info/a.trashinfo', '[Trash Info]\nPath=/elsewhere/a\nDeletionDate=2018-01-01T00:00:00\n')
    elif init == 'both-at-a_1':
        W.file(TD + '/files/a_1', 'orphan payload at a_1\n')
        W.file(TD + '/info/a_2.trashinfo', '[Trash Info]\nPath=/elsewhere/a\nDeletionDate=2018-01-01T00:00:00\n')
    elif init == 'info-a+orphan-a_1':
        # the first free-looking name (no payload a) is taken by an info file, the next one (no info a_1) by a payload DIRECTORY
        W.file(TD + '/info/a.trashinfo', '[Trash Info]\nPath=/elsewhere/a\nDeletionDate=2018-01-01T00:00:00\n')
        W.dir(TD + '/files/a_1').file(TD + '/files/a_1/keep', 'orphan dir payload at a_1\n')
    elif init == 'td-dotdot':
        # every put names its trash directory as --trash-dir lk/../T: lk -> B/real/sub, so the kernel means B/real/T; a lexical collapse means
        # <cwd>/T, a look-alike that already holds an entry called a
        W.dir(B + '/real/sub')
        scen.add_trash_dir(W, B + '/real/T')
        for i in range(len(SEQ_ACTIONS)):
            W.link('%s/s%d/lk' % (B, i), B + '/real/sub')
            scen.add_trashed(W, '%s/s%d/T' % (B, i), 'a', '/elsewhere/a', '2018-01-01T00:00:00', tag='look-alike %d' % i)
    elif init == 'files-symlinked':
        # the user relocated files/ and left a symbolic link behind; one complete pair is already there
        del W.nodes[TD + '/files']
        W.order.remove(TD + '/files')
        W.dir(STORE, mode=0o700).link(TD + '/files', '../store')
        W.file(STORE + '/a', 'older payload, lives in the relocated files/\n')
        W.file(TD + '/info/a.trashinfo', '[Trash Info]\nPath=/elsewhere/a\nDeletionDate=2018-01-01T00:00:00\n')
    return W


def _through_link(snap):
    """view of a snapshot in which a symlinked files/ directory is replaced by what it points to (only while it IS a link)"""
    if snap.get(TD + '/files', ('x',))[0] != 'l':
        return snap
    out = {p: v for p, v in snap.items() if p != TD + '/files' and p != STORE and not p.startswith(STORE + '/')}
    for p, v in snap.items():
        if p == STORE or p.startswith(STORE + '/'):
            out[TD + '/files' + p[len(STORE):]] = v
    return out


def put_step(sb, kind_i, k, n, randints=None, name='a', tdopt=()):
    """re-create entry `a` of kind k in its directory, trash it, check the step invariant; -> (violation|None, state hash)"""
    d = '%s/s%d' % (B, kind_i)
    Wx = world.World()
    Wx.nodes, Wx.order = {}, []
    scen.add_entry(Wx, d + '/' + name, k, tag=' #%d' % n)
    nodes = [Wx.nodes[p] for p in Wx.order if p.startswith(d + '/' + name)]
    for i, nd in enumerate(nodes):
        nd[3] = (world.T0 + 500 + 10 * n + i) * 10 ** 9
    world.build(sb.root, nodes)
    before = _through_link(sb.snapshot())
    plan = {'randints': randints} if randints is not None else None
    r = sb.run(['trash-put'] + list(tdopt) + [name], cwd=d, env={'HOME': B}, now='2024-05-06T07:%02d:%02d' % (n // 60, n % 60), plan=plan)
    after = _through_link(sb.snapshot())
    cl = scen.classify_put(before, after, d + '/' + name)
    detail = {'exit': r.exit, 'err': r.err[-300:], 'state': cl['state'], 'why': cl['why'], 'new': [cl['new_infos'], cl['new_payloads']]}
    if r.exit != 0 or cl['state'] != 'TRASHED':
        return ('C04|sequential-put-not-a-clean-new-pair|state=%s' % cl['state'], 'seq-not-trashed', detail), None
    changed = [p for p in before if ('/files/' in p or '/info/' in p) and not p.startswith(d + '/' + name) and before[p] != after.get(p) and before[p][0] != 'd']
    changed += [p for p in before if (p.startswith(TD + '/files/') and before[p][0] == 'd' and p not in after)]
    if changed:
        return ('C04|sequential-put-changed-an-existing-trash-entry', 'seq-old-changed', dict(detail, changed=changed[:5])), None
    return None, world.canon_hash(after)


def two_volumes_case(c):
    """ONE trash-put run with same-named arguments living on two volumes (and a third on the first volume again): every one gets its own pair in its own trash dir"""
    W = scen.base_world(mounts=['/', '/mnt/v1'], cwd=B)
    ents = [B + '/s0/a', '/mnt/v1/p/a', B + '/s1/a']
    order = [ents[i] for i in c['order']]
    for i, e in enumerate(ents):
        scen.add_entry(W, e, c['kinds'][i], tag=' #%d' % i)
    if c.get('warm'):
        scen.add_trashed(W, TD, 'a', B + '/old/a', '2018-01-01T00:00:00', tag='old')
        scen.add_trashed(W, '/mnt/v1/.Trash-0', 'a', 'old/a', '2018-01-01T00:00:00', tag='old v1')
    with cell.Sandbox(W.spec()) as sb:
        before = sb.snapshot()
        r = sb.run(['trash-put'] + order, cwd=B, env={'HOME': B}, now='2024-05-06T07:00:00')
        after = sb.snapshot()
    states = [scen.classify_put(before, after, e, others=[x for x in ents if x != e]) for e in ents]
    detail = {'order': order, 'exit': r.exit, 'err': r.err[-300:], 'states': [x['state'] for x in states], 'why': [x['why'] for x in states]}
    changed = [p for p in before if ('/files/' in p or '/info/' in p) and p.split('/files/')[0].split('/info/')[0] in (TD, '/mnt/v1/.Trash-0') and before[p] != after.get(p) and before[p][0] != 'd']
    if r.exit != 0 or any(x['state'] != 'TRASHED' for x in states):
        return {'verdict': 'viol', 'sig': 'C04|one-run-two-volumes|not-every-argument-owns-a-clean-pair', 'klass': 'seq-not-trashed', 'detail': detail, 'states': [], 'execs': 1}
    if changed:
        return {'verdict': 'viol', 'sig': 'C04|one-run-two-volumes|changed-an-existing-trash-entry', 'klass': 'seq-old-changed', 'detail': dict(detail, changed=changed[:5]), 'states': [], 'execs': 1}
    tds = sorted(x['pair'][0] for x in states)
    if tds != sorted([TD, TD, '/mnt/v1/.Trash-0']):
        return {'verdict': 'viol', 'sig': 'C04|one-run-two-volumes|pair-in-the-wrong-trash-dir', 'klass': 'seq-wrong-dir', 'detail': dict(detail, tds=tds), 'states': [], 'execs': 1}
    return {'verdict': 'ok', 'klass': 'two-volumes-one-run:three-clean-pairs', 'states': [world.canon_hash(after)], 'execs': 1}


def seq_case(c):
    if c.get('two_volumes'):
        return two_volumes_case(c)
    with cell.Sandbox(seq_world(c['init']).spec()) as sb:
        states = []
        if c.get('hundred'):
            # 100 pre-existing complete pairs a, a_1 .. a_99 and marked collision targets beyond
            W = world.World()
            W.nodes, W.order = {}, []
            for i in range(100):
                nm = 'a' if i == 0 else 'a_%d' % i
                scen.add_trashed(W, TD, nm, B + '/s0/a', '2017-01-01T00:00:00', tag=str(i))
            scen.add_trashed(W, TD, 'a_1111', B + '/s0/a', '2017-01-01T00:00:00', tag='pair')
            W.file(TD + '/files/a_2222', 'orphan payload\n')
            W.file(TD + '/info/a_3333.trashinfo', '[Trash Info]\nPath=/elsewhere\nDeletionDate=2017-01-01T00:00:00\n')
            world.build(sb.root, [W.nodes[p] for p in W.order if p.startswith(TD + '/files/') or p.startswith(TD + '/info/')])
        if c.get('trunc_orphan'):
            nm = c['name']
            for suf in ('_1', '_2'):
                t = nm[:len(nm) - len(suf + '.trashinfo')] + suf
                if len(t + '.trashinfo') > 255:
                    continue
                W = world.World()
                W.nodes, W.order = {}, []
                if c['trunc_orphan'] == 'file':
                    W.file(TD + '/files/' + t, 'orphan at the truncated name\n')
                else:
                    W.dir(TD + '/files/' + t).file(TD + '/files/' + t + '/keep', 'orphan dir at the truncated name\n')
                world.build(sb.root, [W.nodes[p] for p in W.order if p.startswith(TD + '/files/')])
        if c.get('pre_orphan'):
            W = world.World()
            W.nodes, W.order = {}, []
            W.file(TD + '/files/' + c['pre_orphan'], 'orphan payload with the very name\n')
            world.build(sb.root, [W.nodes[p] for p in W.order if p.startswith(TD + '/files/')])
        rnd = None
        if c.get('answers') is not None:
            m = {'pair': 1111, 'payload': 2222, 'info': 3333}
            rnd = [m.get(a, None) for a in c['answers']]
            rnd = [v if v is not None else 5000 + i for i, v in enumerate(rnd)]
        if c.get('two_args'):
            W2 = world.World()
            W2.nodes, W2.order = {}, []
            W2.file(B + '/s0/a', 'first a\n').file(B + '/s1/a', 'second a\n')
            world.build(sb.root, [W2.nodes[p_] for p_ in W2.order if p_.endswith('/a')])
            before = sb.snapshot()
            r = sb.run(['trash-put', 's0/a', 's1/a'], cwd=B, env={'HOME': B}, now='2024-05-06T07:00:00', plan={'randints': rnd})
            after = sb.snapshot()
            st = [scen.classify_put(before, after, B + '/s%d/a' % i, others=[B + '/s%d/a' % (1 - i)])['state'] for i in (0, 1)]
            if r.exit != 0 or st != ['TRASHED', 'TRASHED']:
                return {'verdict': 'viol', 'sig': 'C04|sequential-put-not-a-clean-new-pair|two-arguments-after-100-names', 'klass': 'seq-not-trashed',
                        'detail': {'exit': r.exit, 'err': r.err[-300:], 'states': st}, 'states': [], 'execs': 1}
            return {'verdict': 'ok', 'klass': 'two-arguments-after-100-names', 'states': [world.canon_hash(after)], 'execs': 1}
        for n, ai in enumerate(c['hist']):
            v, h = put_step(sb, ai, SEQ_ACTIONS[ai], n, randints=rnd, name=(c['names'][n] if c.get('names') else c.get('name', 'a')),
                            tdopt=(['--trash-dir', 'lk/../T'] if c['init'] == 'td-dotdot' else ()))
            if rnd is not None:
                rnd = rnd[1:] if False else rnd       # answers are consumed inside one process; each put restarts the list
            if v:
                return {'verdict': 'viol', 'sig': v[0], 'klass': v[1], 'detail': dict(v[2], step=n), 'states': states, 'execs': n + 1}
            states.append(h)
    return {'verdict': 'ok', 'klass': 'all-steps-add-one-pair', 'states': states, 'execs': len(c['hist'])}


def seq_cases(tier):
    depth = 6 if tier == 'thorough' else 4
    out = []
    for init in INITS:
        for d in range(1, depth + 1):
            for h in itertools.product(range(3), repeat=d):
                if d < depth and False:
                    continue
                out.append({'init': init, 'hist': list(h)})
    # only maximal histories are needed (every prefix is checked on the way); keep shorter ones out
    out = [c for c in out if len(c['hist']) == depth]
    for ln in (244, 245, 246, 250, 255):
        for h in itertools.product(range(3), repeat=3):
            for trunc in (None, 'file', 'dir'):
                # the ENAMETOOLONG truncation branch, colliding; optionally an orphan payload sits at exactly the truncated name
                out.append({'init': 'empty', 'hist': list(h), 'name': 'N' * ln, 'trunc_orphan': trunc})
    for k1 in range(3):
        for k2 in range(3):
            # an entry named r, then one named r.trashinfo (its info is r.trashinfo.trashinfo): neither may disturb the other
            out.append({'init': 'empty', 'hist': [k1, k2], 'names': ['r', 'r.trashinfo']})
            out.append({'init': 'empty', 'hist': [k1, k2], 'names': ['r.trashinfo', 'r']})
            # names made of dots only (no "extension" to split off), twice, with and without an orphan payload of that name
            for nm in ('...', '..a', '.a.'):
                out.append({'init': 'empty', 'hist': [k1, k2], 'names': [nm, nm]})
                out.append({'init': 'empty', 'hist': [k1, k2], 'names': [nm, nm], 'pre_orphan': nm})
    for order in itertools.permutations(range(3)):
        for kinds in (['file', 'file', 'file'], ['tree', 'file', 'tree'], ['file', 'tree', 'ldang']):
            for warm in (0, 1):
                out.append({'init': 'two-volumes', 'two_volumes': True, 'order': list(order), 'kinds': kinds, 'warm': warm, 'hist': [0]})
    for ans in itertools.product(['pair', 'payload', 'info', 'fresh'], repeat=4):
        out.append({'init': 'empty', 'hist': [0], 'hundred': True, 'answers': list(ans)})
        out.append({'init': 'empty', 'hist': [1], 'hundred': True, 'answers': list(ans)})
    # 100 taken names and TWO same-named arguments in one run: the second one needs a random suffix of its own
    for ans in (['fresh', 'fresh', 'fresh', 'fresh'], ['pair', 'fresh', 'payload', 'fresh']):
        out.append({'init': 'empty', 'hist': [0], 'hundred': True, 'answers': ans, 'two_args': True})
    return out


def extra_coverage(tier, seed, rep):
    cases = seq_cases(tier)
    outs = pool.map_cases(__name__, 'seq_case', cases)
    states, transitions = set(), 0
    for c, o in zip(cases, outs):
        if 'harness' in o:
            rep.harness.append(({'id': json.dumps(c)}, o['harness']))
            continue
        rep.evaluations += o.get('execs', 1)
        transitions += o.get('execs', 1)
        states.update(o.get('states', []))
        key = 'seq:%s:%s' % (c['init'] if not c.get('hundred') else 'hundred', o['klass'])
        rep.classes[key] = rep.classes.get(key, 0) + 1
        rep.nontrivial.add(key)
        if o['verdict'] == 'viol':
            rep.viol.setdefault(o['sig'], (c, o))
            rep.viol_count[o['sig']] = rep.viol_count.get(o['sig'], 0) + 1
    rep.samples.append({'sequential_history': cases[len(cases) // 3], 'outcome': outs[len(cases) // 3].get('klass')})
    return {'sequential': {'histories': len(cases), 'distinct_states': len(states), 'transitions': transitions,
                           'depth': 6 if tier == 'thorough' else 4, 'random_answer_sequences': 256}}


def main(tier, seed):
    return sched.run(sys.modules[__name__], tier, seed)


def replay(path):
    with open(path) as f:
        data = json.load(f)
    out = replay_case(data['case'])
    pool.cleanup()
    print(json.dumps({'case': data['case'], 'outcome': out}, indent=1, default=str))
    if out.get('verdict') == 'viol':
        print('VIOLATION property=%s replay=%s' % (PID, path))
        return 1
    return 0
