"""C20 -- all commands read a trash directory the same way (and the way the spec says).

E1 product, 4-way differential: .trashinfo content grammar (Path value x structure) x kind of trash directory, read by
trash-list, trash-restore, trash-rm and trash-empty DAYS."""
import datetime
import sys

from .. import cell, scen, world
from ..explore import product
from ..ref import trashinfo as R1

PID = 'C20'
LEVEL = 'exploration'
TECHNIQUE = ('bounded-exhaustive enumeration (model checking of the implementation), 4-way differential: Path-value classes x file-structure classes x '
             'trash-directory kinds; the same hand-written .trashinfo is read by the four real commands and their readings compared with each other and with the spec reading R1')
LEVEL_TEXT = ('for every combination the path printed by trash-list (also in its --files rendering) must be the path trash-restore offers and restores to, the path trash-rm matches (exact pattern removes, a '
              'different one does not) and the date both print must be the one trash-empty DAYS compares (purged at +1 s, kept at +0 s); in $topdir directories the result must '
              'also equal the spec reading (first Path / first DeletionDate line, relative to $topdir)')
LEVEL_NOTE = 'trusted: R1; the base directory of a relative Path inside the HOME trash is not fixed by the spec -- only agreement between the commands is demanded there'
RULE = ('Path value {absolute, relative, relative with .., %41, %2F, %ZZ, lone %, empty, inner+trailing spaces, leading space, CRLF, non-ASCII escaped, an escape that is not valid UTF-8 (%E9)} x structure {plain, duplicate Path, '
        'duplicate DeletionDate, extra keys, extra section, missing header, lowercase key, "Path =", date before path, no final newline, malformed first DeletionDate followed by a valid one, no DeletionDate at all, an empty one} x trash dir {home on /, home on own volume, '
        '.Trash/uid, .Trash-uid, --trash-dir, --trash-dir through a symlink that crosses a volume boundary, two --trash-dir options (root volume first)}; a well-formed companion entry is read before the entry under test; non-trivial = at least one command produced a reading; distinct = (path class, structure, dir, agreement class)')
PATHS = ['abs', 'rel', 'rel-dotdot', 'pct41', 'pct2F', 'pctZZ', 'pct-lone', 'empty', 'spaces', 'leadsp', 'crlf', 'utf8', 'pctE9', 'long', 'formfeed']
STRUCTS = ['plain', 'dup-path', 'dup-date', 'extra-keys', 'extra-section', 'no-header', 'lower-key', 'path-space-eq', 'date-first', 'no-final-nl', 'bad-date-then-good', 'no-date', 'empty-date']
DIRS = ['home-root', 'home-ownvol', 'top', 'alt', 'trash-dir', 'trash-dir-xlink', 'two-trash-dirs']
DATE = '2021-03-04T05:06:07'


def dimensions(tier):
    return {'path_values': len(PATHS), 'structures': len(STRUCTS), 'trash_dirs': len(DIRS)}


def cases(tier):
    return [{'pv': p, 'st': s, 'dir': d} for d in DIRS for s in STRUCTS for p in PATHS]


def path_value(pv, rel_ok):
    return {'abs': '/data/w/a', 'rel': 'u/w/a', 'rel-dotdot': '../x/a', 'pct41': 'u/w/%41', 'pct2F': 'u/w%2Fa', 'pctZZ': 'u/w/%ZZ',
            'pct-lone': 'u/w/100%', 'empty': '', 'spaces': 'u/w/a b ', 'leadsp': ' u/w/a', 'crlf': 'u/w/a\r', 'utf8': 'u/w/%E6%97%A5', 'pctE9': 'u/w/caf%E9', 'long': 'u/w/' + '/'.join(['%E6%97%A5' * 25] * 20), 'formfeed': 'u/w/re\x0cport\x1cx'}[pv]


def content(pv, st):
    p = path_value(pv, True)
    P, D = 'Path=%s' % p, 'DeletionDate=%s' % DATE
    lines = {'plain': ['[Trash Info]', P, D], 'dup-path': ['[Trash Info]', P, 'Path=/other/second', D],
             'dup-date': ['[Trash Info]', P, D, 'DeletionDate=1999-09-09T09:09:09'],
             'extra-keys': ['[Trash Info]', 'X-Foo=bar', P, 'Comment=Path=/not/this', D, 'Size=12'],
             'extra-section': ['[Trash Info]', P, D, '', '[Other]', 'Path=/other/section', 'DeletionDate=1990-01-01T00:00:00'],
             'no-header': [P, D], 'lower-key': ['[Trash Info]', 'path=%s' % p, D], 'path-space-eq': ['[Trash Info]', 'Path =%s' % p, D],
             'date-first': ['[Trash Info]', D, P], 'no-final-nl': ['[Trash Info]', P, D],
             'bad-date-then-good': ['[Trash Info]', P, 'DeletionDate=2001-02-03T04:05:06.789', 'DeletionDate=2001-02-03T04:05:06'],
             'no-date': ['[Trash Info]', P], 'empty-date': ['[Trash Info]', P, 'DeletionDate=']}[st]
    s = '\n'.join(lines)
    return s if st == 'no-final-nl' else s + '\n'


def run_case(c):
    d = c['dir']
    mounts = ['/', '/mnt/v1', '/mnt/v2'] + (['/home'] if d == 'home-ownvol' else [])
    W = scen.base_world(mounts=mounts, cwd='/')
    W.dir('/data/w').dir('/mnt/v1/u/w').dir('/home/u/w')
    scen.add_trash_dir(W, '/mnt/v2/.Trash-0')          # one more volume with an (empty) trash directory of its own
    td, top = {'home-root': (scen.HOME_TRASH, None), 'home-ownvol': (scen.HOME_TRASH, None), 'top': ('/mnt/v1/.Trash/0', '/mnt/v1'),
               'alt': ('/mnt/v1/.Trash-0', '/mnt/v1'), 'trash-dir': ('/mnt/v1/custom', '/mnt/v1'),
               'two-trash-dirs': ('/mnt/v1/custom', '/mnt/v1'),
               'trash-dir-xlink': ('/mnt/v1/custom', None)}[d]          # given as --trash-dir /home/u/lnk (a symlink that crosses the volume boundary): no spec reading, agreement only
    if d == 'top':
        W.dir('/mnt/v1/.Trash', mode=0o1777)
    raw = content(c['pv'], c['st'])
    scen.add_trashed(W, td, 'e', None, raw=raw, payload='file', tag='the payload')
    # a well-formed companion in the same directory, read BEFORE e by every command (its name sorts first)
    comp_rel = top is not None or d == 'trash-dir-xlink'
    scen.add_trashed(W, td, 'aa', ('u/w/companion' if comp_rel else '/data/w/companion'), '2011-11-11T11:11:11', payload='file', tag='companion')
    tdopt = ['--trash-dir', td] if d == 'trash-dir' else []
    tdopt_r = None
    if d == 'two-trash-dirs':
        # trash-list / trash-empty accept several --trash-dir: an empty one on the root volume first, then the one on /mnt/v1 (trash-restore takes one)
        scen.add_trash_dir(W, '/home/u/emptytd')
        tdopt, tdopt_r = ['--trash-dir', '/home/u/emptytd', '--trash-dir', td], ['--trash-dir', td]
    if d == 'trash-dir-xlink':
        W.link('/home/u/lnk', '/mnt/v1/custom')
        tdopt = ['--trash-dir', '/home/u/lnk']
    spec = W.spec()
    readings = {}
    with cell.Sandbox(spec) as sb:
        before = sb.snapshot()
        rl = sb.run(['trash-list'] + tdopt, cwd='/')
        ll = [ln for ln in rl.out.split('\n') if ln and not ln.endswith('/companion')]
        if ll:
            first = '\n'.join(ll)
            readings['list_date'], readings['list_path'] = first[:19], first[20:]
        rf = sb.run(['trash-list', '--files'] + tdopt, cwd='/')
        fl = [ln for ln in rf.out.split('\n') if ln and '/companion -> ' not in ln]
        if fl:
            ff = '\n'.join(fl)
            readings['listfiles_path'] = ff[20:].rsplit(' -> ', 1)[0]
        rr = sb.run(['trash-restore'] + (tdopt_r if tdopt_r is not None else tdopt) + ['/'], cwd='/', stdin='\n')
        li_all = scen.parse_restore_listing(rr.out)
        li = [x for x in li_all if not x[2].endswith('/companion')]
        if li:
            readings['restore_date'], readings['restore_path'] = li[0][1], li[0][2]
        L = readings.get('list_path')
        if d not in ('trash-dir', 'trash-dir-xlink', 'two-trash-dirs') and L is not None and L != '':
            esc = ''.join('[%s]' % ch if ch in '*?[' else ch for ch in L)
            if esc.startswith('/'):
                sb.run(['trash-rm', esc + 'x'], cwd='/')
                readings['rm_other_removed'] = scen.entry_state(before, sb.snapshot(), td, 'e') != 'kept'
        known = readings.get('list_date', '?')[:1].isdigit()
        if known:
            real = getattr(datetime, '_vt_real_datetime', datetime.datetime)
            D = real.strptime(readings['list_date'], '%Y-%m-%d %H:%M:%S')
            at = (D + datetime.timedelta(days=1)).strftime('%Y-%m-%dT%H:%M:%S')
            sb.run(['trash-empty'] + tdopt + ['1'], cwd='/', env=dict(W.env, TRASH_DATE=at))
            readings['empty_at_limit'] = scen.entry_state(before, sb.snapshot(), td, 'e')
        else:
            sb.run(['trash-empty'] + tdopt + ['0'], cwd='/', env=dict(W.env, TRASH_DATE='2999-01-01T00:00:00'))
            readings['empty_undated'] = scen.entry_state(before, sb.snapshot(), td, 'e')
        if d not in ('trash-dir', 'trash-dir-xlink', 'two-trash-dirs') and L and L.startswith('/'):
            sb.run(['trash-rm', esc], cwd='/')
            readings['rm_exact'] = scen.entry_state(before, sb.snapshot(), td, 'e')
    with cell.Sandbox(spec) as sb2:
        b2 = sb2.snapshot()
        if li:
            r2 = sb2.run(['trash-restore'] + (tdopt_r if tdopt_r is not None else tdopt) + ['/'], cwd='/', stdin='%d\n' % li[0][0])
            a2 = sb2.snapshot()
            dest = [p for p in a2 if p not in b2 and a2[p][0] == 'f' and a2[p][3] == b2[td + '/files/e'][3]]
            readings['restored_to'] = dest[0] if len(dest) == 1 else (None if not dest else dest)
            readings['restore_exit'] = r2.exit
        if known:
            at1 = (D + datetime.timedelta(days=1, seconds=1)).strftime('%Y-%m-%dT%H:%M:%S')
            sb2.run(['trash-empty'] + tdopt + ['1'], cwd='/', env=dict(W.env, TRASH_DATE=at1))
            readings['empty_past_limit'] = scen.entry_state(b2, sb2.snapshot(), td, 'e') if not li or readings.get('restored_to') is None else 'n/a'
    with cell.Sandbox(spec) as sb3:
        if known:
            b3 = sb3.snapshot()
            sb3.run(['trash-empty'] + tdopt + ['1'], cwd='/', env=dict(W.env, TRASH_DATE=at1))
            readings['empty_past_limit'] = scen.entry_state(b3, sb3.snapshot(), td, 'e')
    detail = {'raw': raw, 'dir': d, 'readings': readings, 'list_err': rl.err[-200:], 'restore_err': rr.err[-200:]}
    dims = '%s|%s|%s' % (c['pv'], c['st'], d)
    L, R = readings.get('list_path'), readings.get('restore_path')
    blame = 'dir=%s|path=%s' % (d, 'relative' if not path_value(c['pv'], 1).startswith('/') else 'absolute')

    def viol(what, extra=''):
        return {'verdict': 'viol', 'sig': 'C20|%s|%s%s' % (what, blame, extra), 'klass': what, 'nontrivial': what + '|' + dims, 'execs': 8, 'detail': detail}
    if (L is None) != (R is None):
        return viol('listed-by-one-command-only', '|struct=%s' % c['st'])
    if L is None:
        # nobody lists it: then trash-rm must not find a path in it either, and trash-empty DAYS no date
        with cell.Sandbox(spec) as sb4:
            b4 = sb4.snapshot()
            sb4.run(['trash-rm', '*'], cwd='/')
            readings['rm_star_when_unlisted'] = scen.entry_state(b4, sb4.snapshot(), td, 'e')
        if d not in ('trash-dir', 'trash-dir-xlink', 'two-trash-dirs') and readings['rm_star_when_unlisted'] != 'kept':
            return viol('unlisted-entry-matched-by-rm', '|struct=%s' % c['st'])
        return {'verdict': 'ok', 'klass': 'unreadable-for-all', 'nontrivial': False, 'execs': 4, 'detail': detail}
    if readings.get('listfiles_path') != L:
        return viol('list-and-list--files-disagree-on-path')
    if L != R:
        return viol('list-and-restore-disagree-on-path')
    ld, rd = readings['list_date'], readings['restore_date']
    if (ld if ld[:1].isdigit() else 'None') != rd:
        return viol('list-and-restore-disagree-on-date', '|struct=%s' % c['st'])
    rt = readings.get('restored_to')
    if readings.get('restore_exit') == 0 and rt != world_norm(L):
        return viol('restored-elsewhere-than-listed')
    if readings.get('rm_other_removed'):
        return viol('rm-matched-a-different-path')
    if 'rm_exact' in readings and readings['rm_exact'] != 'purged':
        return viol('rm-does-not-match-listed-path')
    if known and (readings.get('empty_at_limit') != 'kept' or readings.get('empty_past_limit') != 'purged'):
        return viol('empty-compares-another-date', '|struct=%s' % c['st'])
    if not known and readings.get('empty_undated') != 'kept':
        return viol('empty-purges-undated-entry')
    # spec reading for $topdir directories
    if top is not None:
        p = R1.parse(raw.encode('utf-8'))
        want = p['path'].decode('utf-8', 'surrogateescape')
        want = want if want.startswith('/') else top + '/' + want
        if c['pv'] == 'crlf' and L + '\r' == want:
            want = L      # a CR before the newline: text-mode reading drops it; the spec is silent -> don't-care
        if c['pv'] == 'pctE9':
            want = L      # an escape that is not UTF-8: how the undecodable byte is shown is not compared, only that the four commands agree
        if L != want:
            return viol('reading-differs-from-spec', '|pv=%s|struct=%s' % (c['pv'], c['st']))
        wd = p['date'].decode() if p['date_valid'] else None
        if wd is not None and ld != wd.replace('T', ' '):
            return viol('date-differs-from-spec', '|struct=%s' % c['st'])
    return {'verdict': 'ok', 'klass': 'four-readers-agree', 'nontrivial': 'agree|' + dims, 'execs': 8, 'detail': detail}


def world_norm(p):
    import posixpath
    return posixpath.normpath(p) if p else p


def main(tier, seed):
    return product.run(sys.modules[__name__], tier, seed)


def replay(path):
    return product.replay(sys.modules[__name__], path)
