"""C17 -- under file-system errors trash-put terminates, falls back, and reports honestly.

E4 deviation-bounded fault exploration on the real trash-put: single faults on every operation x errno,
sticky (persistent) faults, and pairs of faults (level 2)."""
import sys

from .. import cell, scen, world
from ..explore import faults

PID = 'C17'
LEVEL = 'fault_enumeration'
TECHNIQUE = ('exhaustive deviation-bounded fault enumeration (model checking of the implementation): every system call of every put scenario answers with every errno it can '
             'return (level 1), persistently (sticky), and in pairs (level 2, the second fault placed on the trace of the first); operation budget as termination oracle')
LEVEL_TEXT = ('for every operation of the fault-free trace and every applicable errno the real trash-put is re-executed with that fault; then again for every later operation of the '
              'faulted trace (pairs); every run must terminate within 20x the fault-free length and end with the argument fully trashed (in any candidate) or untouched, exit status 0 iff '
              'trashed, pre-existing pairs unchanged')
LEVEL_NOTE = 'faults are injected at Python os-call granularity with errnos from a per-syscall table; triples of faults and errnos outside the table are not covered'
RULE = ('scenarios: kind {file, tree, symlink} x route {home cold, home warm, .Trash/uid, .Trash-uid, home fallback, home trash whose info is a regular file, home trash without info/, .Trash-uid + enabled fallback} + a payload without .trashinfo under the own name of the argument (it must survive every fault; a probe of that name answered ENOENT / ENOTDIR / ENAMETOOLONG is a dont-care) + a directory that contains its only candidate trash directory (rename answers EINVAL by itself) + two arguments in one run x {file, tree} x {home warm, .Trash-uid}; level 1 = all ops x all applicable errnos + sticky faults on mutating '
        'ops and on stat/lstat; level 2 quick = second fault on mutating ops with {EACCES, ENOSPC, EIO} for 4 scenarios, thorough = all ops x all errnos for 4 scenarios and the quick scope elsewhere; '
        'non-trivial = the fault was delivered and changed the trace; distinct = (route, faulted op(s), errno(s), outcome)')
LEVEL2_SCOPE = {'quick': 'second fault on mutating operations with errno in {EACCES, ENOSPC, EIO} for 4 scenarios (file/home-cold, file/fallback, tree/.Trash-uid, link/.Trash/uid)',
                'thorough': 'all operations x all applicable errnos for (file|tree, home-cold|fallback); quick scope for the other scenarios'}
ROUTES = ['home-cold', 'home-warm', 'top', 'alt', 'fallback', 'home-info-file', 'home-info-missing', 'alt+fallback']
KINDS = ['file', 'tree', 'ldir']


def dimensions(tier):
    return {'kinds': 3, 'routes': 10, 'errno_table_size': sum(len(v) for v in faults.ERRNOS.values())}


def scenarios(tier):
    # + a directory that contains the only candidate trash directory: rename(2) answers EINVAL without any injected fault
    return [{'kind': k, 'route': r} for r in ROUTES for k in KINDS] + [{'kind': 'tree', 'route': 'inside-entry'}] + [
        # two arguments in one run: whatever happens to the second must not touch what the first one became
        {'kind': k, 'route': r, 'two': True} for r in ('home-warm', 'alt') for k in ('file', 'tree')] + [
        # 100 names are taken and two arguments with that very name come in one run: each needs a random suffix of its own
        {'kind': 'file', 'route': 'home-hundred', 'two': True},
        # the directory the home trash lives in is a dangling symbolic link (an unplugged disk): mkdir of the trash dir answers ENOENT every time
        {'kind': 'file', 'route': 'home-parent-dangling'}, {'kind': 'tree', 'route': 'home-parent-dangling'}] + [
        # files/ already holds a payload without .trashinfo under the very name the argument would get: it must survive whatever call fails
        {'kind': 'file', 'route': 'home-orphan'}, {'kind': 'tree', 'route': 'home-orphan'}]


def level2_filter(tier, scn, op, errno, mut):
    key = (scn['kind'], scn['route'])
    if tier == 'thorough':
        if scn['kind'] in ('file', 'tree') and scn['route'] in ('home-cold', 'fallback'):
            return True
        return bool(mut) and errno in ('EACCES', 'ENOSPC', 'EIO')
    if key in (('file', 'home-cold'), ('file', 'fallback'), ('tree', 'alt'), ('ldir', 'top'), ('file', 'alt+fallback')):
        return bool(mut) and errno in ('EACCES', 'ENOSPC', 'EIO')
    return False


def _layout(s):
    route = s['route']
    if route == 'inside-entry':
        return '/home/u/w', '/home/u/w/x/T'
    B = '/home/u/w' if route.startswith('home') else '/mnt/v1/w'
    td = {'home-parent-dangling': scen.HOME_TRASH, 'home-hundred': scen.HOME_TRASH, 'home-cold': scen.HOME_TRASH, 'home-warm': scen.HOME_TRASH, 'top': '/mnt/v1/.Trash/0', 'alt': '/mnt/v1/.Trash-0', 'fallback': scen.HOME_TRASH, 'home-info-file': scen.HOME_TRASH, 'home-info-missing': scen.HOME_TRASH, 'alt+fallback': '/mnt/v1/.Trash-0', 'home-orphan': scen.HOME_TRASH}[route]
    return B, td


def make_world(s):
    B, td = _layout(s)
    W = scen.base_world(mounts=['/', '/mnt/v1'], cwd=B)
    W.dir(B)
    scen.add_entry(W, B + '/x', s['kind'])
    if s['route'] == 'home-hundred':
        for i in range(100):
            scen.add_trashed(W, td, 'x' if i == 0 else 'x_%d' % i, B + '/x', '2017-01-01T00:00:00', tag=str(i))
        scen.add_entry(W, B + '/pre/x', 'file', tag=' (first argument)')
    elif s.get('two'):
        scen.add_entry(W, B + '/pre', 'file')
    if s['route'] == 'home-parent-dangling':
        W.dir('/home/u/.local').link('/home/u/.local/share', '/media/unplugged/share')
    if s['route'] == 'inside-entry':
        scen.add_trash_dir(W, td)
    if s['route'] == 'top':
        W.dir('/mnt/v1/.Trash', mode=0o1777)
    if s['route'] == 'fallback':
        W.file('/mnt/v1/.Trash', 'blocked').file('/mnt/v1/.Trash-0', 'blocked')
    if s['route'] == 'home-info-missing':
        W.dir(td, mode=0o700).dir(td + '/files', mode=0o700)          # left by a run that failed between the two mkdirs
    if s['route'] == 'home-info-file':
        W.dir(td, mode=0o700).dir(td + '/files', mode=0o700).file(td + '/info', 'not a directory\n')
    if s['route'] == 'home-orphan':
        scen.add_trash_dir(W, td)
        W.file(td + '/files/x', 'a payload that lost its .trashinfo; nobody may overwrite it\n')
    if s['route'] == 'home-warm':
        scen.add_trashed(W, td, 'old', B + '/old', '2019-01-01T00:00:00', payload='tree', tag='older')
    return W


def command(s):
    B, td = _layout(s)
    argv = ['trash-put']
    env = {'HOME': '/home/u'}
    if s['route'] in ('fallback', 'alt+fallback'):
        argv.append('--home-fallback')
        env['TRASH_ENABLE_HOME_FALLBACK'] = '1'
    if s['route'] == 'inside-entry':
        argv += ['--trash-dir', 'x/T']
    if s['route'] == 'home-hundred':
        argv.append('pre/x')
    elif s.get('two'):
        argv.append('pre')
    return {'argv': argv + ['x'], 'env': env, 'cwd': B, 'now': '2024-05-06T07:08:09', 'plan': {'resolve': 'all'}}


def oracle(s, start, after, r, flts):
    B, td = _layout(s)
    E = B + '/x'
    PRE = B + ('/pre/x' if s['route'] == 'home-hundred' else '/pre')
    cl = scen.classify_put(start, after, E, others=[PRE] if s.get('two') else ())
    clp = scen.classify_put(start, after, PRE, others=[E]) if s.get('two') else None
    fdesc = '+'.join('%s:%s%s' % (f['op'], f['errno'], '*' if f.get('sticky') else '') for f in flts) or 'none'
    ops = '+'.join('%s%s' % (f['op'], '*' if f.get('sticky') else '') for f in flts) or 'none'
    delivered = sum(1 for t in r.trace for f in flts if t[0] == f['at'] and t[4] == f['errno'])
    detail = {'scenario': s, 'faults': flts, 'exit': r.exit, 'err': r.err[-400:], 'state': cl['state'], 'why': cl['why'],
              'new': [cl['new_infos'], cl['new_payloads']], 'delivered': delivered}
    nt = delivered == len(flts) and ('%s|%s|%s|%s' % (s['route'], fdesc, cl['state'], 'exit0' if r.exit == 0 else 'nz'))
    kind = 'dir' if s['kind'] == 'tree' else ('link' if s['kind'].startswith('l') else 'file')

    def causes():
        """primary cause label, by priority (one label keeps the finding classes few and stable)"""
        c = set()
        fseq = set(f['at'] for f in flts)
        sticky_ops = set(f['op'] for f in flts if f.get('sticky'))
        for t in r.trace:
            ok = cell.ok_of(t)
            info = any(p.endswith('.trashinfo') for p in t[2])
            if t[1] in ('rename', 'replace') and not ok and t[4] not in ('CRASH', 'BUDGET'):
                c.add('move-fell-back-to-copy')
            if not ok and info and t[1] in ('write', 'close'):
                c.add('info-write-failed')
            if not ok and info and t[1] in ('remove', 'unlink'):
                c.add('info-cleanup-failed')
            if not ok and info and t[1] in ('lstat', 'stat') and t[0] in fseq and 'move-fell-back-to-copy' in c:
                c.add('info-cleanup-failed')      # the existence probe of the cleanup (remove_file: lexists) was the faulted call
            if not ok and info and t[1] == 'open' and (t[0] in fseq or 'open' in sticky_ops):
                c.add('info-create-failed')
        if any(f.get('sticky') for f in flts) and ('info-create-failed' in c or 'info-write-failed' in c or r.budget):
            c.add('persistent-fault-on-info-creation')
        for label in ('persistent-fault-on-info-creation', 'move-fell-back-to-copy', 'info-cleanup-failed', 'info-write-failed', 'info-create-failed'):
            if label in c:
                return label, c
        return 'none', c

    def viol(what):
        label, allc = causes()
        if what.startswith('half-state(') and 'info-cleanup-failed' in allc and len(cl['new_infos']) == len(cl['new_payloads']) + 1:
            # the fault hit the removal of the failed info file itself: no implementation can clean up then -> don't-care
            return {'verdict': 'dontcare', 'klass': 'stray-info-because-cleanup-itself-failed', 'nontrivial': nt, 'detail': detail}
        return {'verdict': 'viol', 'sig': 'C17|%s|cause=%s' % (what, label), 'klass': what, 'nontrivial': nt,
                'detail': dict(detail, decisive_ops=ops, kind=kind, causes=sorted(allc))}
    if r.budget:
        return viol('does-not-terminate')
    if s['route'] == 'home-orphan' and world.under(start, td + '/files/x') != world.under(after, td + '/files/x'):
        probe = [t for t in r.trace for f in flts if t[0] == f['at'] and t[1] in ('stat', 'lstat') and f['errno'] in ('ENOENT', 'ENOTDIR', 'ENAMETOOLONG')
                 and any(p.endswith('/files/x') for p in t[2])]
        if probe:
            # the probe of that very name was answered "nothing has this name" (or "no such name can exist"): a statement about the world, not a
            # failure to find out - taking the name is right in the world described -> don't-care
            return {'verdict': 'dontcare', 'klass': 'name-probe-answered-free', 'nontrivial': nt, 'detail': detail}
        return viol('payload-without-info-overwritten')
    pre_intact = False
    if clp is not None:
        # is the first argument in some trash directory as a complete pair (whatever else the faults left lying around)?
        for tdx, (infos_, pays_) in scen.trash_state(after).items():
            for inm, raw in infos_.items():
                nm_ = inm[:-len('.trashinfo')]
                loc, _p = scen.trashinfo_location(tdx, raw or b'')
                if nm_ in pays_ and loc is not None and scen.location_matches(tdx, loc, PRE) and \
                        world.same_entry(start, PRE, after, '%s/files/%s' % (tdx, nm_)):
                    pre_intact = True
    if clp is not None and clp['state'] != 'TRASHED':
        # the first argument was completely in the trash (its payload moved) before the first fault was delivered: it has to stay that way
        moved = [t[0] for t in r.trace if t[1] in ('rename', 'replace') and cell.ok_of(t) and t[2] and t[2][0].rstrip('/').endswith(PRE[len(B):])]
        if moved and flts and min(f['at'] for f in flts) > moved[0] and not pre_intact:
            detail['first_argument'] = clp['why']
            return viol('earlier-argument-damaged-while-handling-a-later-one')
    tb = r.exit not in (0, 74) and 'Traceback' in r.err
    if tb and cl['state'] != 'HALF':
        # an uncaught exception that leaves the entry untouched and exits non-zero is a (crude) failure report:
        # the property demands termination + an honest final state, not a particular wording -> don't-care
        return {'verdict': 'dontcare', 'klass': 'crashed-but-state-consistent', 'nontrivial': nt, 'detail': detail}
    if cl['state'] == 'HALF':
        # is the original entry still complete SOMEWHERE (origin, or any payload of any trash dir)?
        somewhere = world.same_entry(start, E, after, E, dir_mtime=False)
        for tdx, (infos_, pays_) in scen.trash_state(after).items():
            for nm_ in pays_:
                if '%s/files/%s' % (tdx, nm_) not in start and world.same_entry(start, E, after, '%s/files/%s' % (tdx, nm_), dir_mtime=False):
                    somewhere = True
        if not somewhere and not r.budget:
            # union of what is left: every original leaf must survive in at least one of origin / payloads
            leaves = {k: v for k, v in world.under(start, E).items() if v[0] != 'd'}
            places = [world.under(after, E)] + [world.under(after, '%s/files/%s' % (tdx, nm_)) for tdx, (i_, pays_) in scen.trash_state(after).items()
                                                 for nm_ in pays_ if '%s/files/%s' % (tdx, nm_) not in start]
            lost = [k for k, v in leaves.items() if not any(world.norm(pl.get(k, ('x',)), link_mtime=False) == world.norm(v, link_mtime=False) for pl in places)]
            if lost:
                detail['lost'] = lost[:5]
                return viol('DATA-LOST' + ('+exit0' if r.exit == 0 else ''))
        if len(cl['new_infos']) == 1 and cl['new_infos'] == cl['new_payloads'] and any('info does not name the entry' in w or 'info malformed' in w for w in cl['why']) \
                and not any('payload' in w and 'differs' in w for w in cl['why']) and not world.under(after, E):
            return viol('trashed-but-the-info-does-not-name-the-entry')
        # the exact shape of the half state is part of the signature, so that an open finding can only hide
        # the very same shape: what is left at the origin x new infos x new payloads
        here_b, here_a = world.under(start, E), world.under(after, E)
        origin = 'gone' if not here_a else ('intact' if world.same_entry(start, E, after, E, dir_mtime=False) else 'partial')
        what = 'half-state(origin-%s,%d-new-info,%d-new-payload)' % (origin, len(cl['new_infos']), len(cl['new_payloads']))
        return viol(what + ('+traceback' if tb else ''))
    changed_old = [p for p in start if (p.startswith(td + '/files/') or p.startswith(td + '/info/')) and start[p] != after.get(p) and start[p][0] != 'd']
    if changed_old:
        return viol('pre-existing-pair-changed')
    if cl['state'] == 'TRASHED':
        # C03/C07 form rule also after a fall-through: absolute Path in the home trash, relative in a $topdir trash dir of a real volume
        tdx, nmx = cl['pair']
        from ..ref import trashinfo as R1
        praw = R1.parse(scen.info_of(after, tdx, nmx))['path_raw']
        if tdx == scen.HOME_TRASH and not praw.startswith(b'/'):
            return viol('relative-Path-written-in-the-home-trash')
        if tdx.startswith('/mnt/v1/') and praw.startswith(b'/'):
            return viol('absolute-Path-written-in-a-volume-trash-dir')
    if clp is not None:
        pre_ok = clp['state'] == 'TRASHED' or (pre_intact and not world.under(after, PRE))          # (a complete pair counts even when a failed clean-up left a stray info next to it)
        if (r.exit == 0) != (cl['state'] == 'TRASHED' and pre_ok):
            return viol('exit-status-lies(exit=%s,states=%s+%s)' % ('0' if r.exit == 0 else 'nonzero', 'TRASHED' if pre_ok else clp['state'], cl['state']))
    elif (r.exit == 0) != (cl['state'] == 'TRASHED'):
        return viol('exit-status-lies(exit=%s,state=%s)' % ('0' if r.exit == 0 else 'nonzero', cl['state']))
    return {'verdict': 'ok', 'klass': '%s(%s)' % (cl['state'], 'exit0' if r.exit == 0 else 'nz'), 'nontrivial': nt, 'detail': detail}


def main(tier, seed):
    return faults.run(sys.modules[__name__], tier, seed)


def replay(path):
    return faults.replay(sys.modules[__name__], path)
