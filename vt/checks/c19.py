"""C19 -- a malformed trash entry never prevents the well-formed ones from being handled.

E1 product, differential, with owned directory order: well-formed sets x malformed-neighbour subsets x every
permutation of the directory listing x eleven reader invocations; the projection of each run onto the well-formed
entries must equal the run without the malformed neighbours."""
import itertools
import math
import sys

from .. import cell, scen, world
from ..explore import product

PID = 'C19'
LEVEL = 'exploration'
TECHNIQUE = ('bounded-exhaustive enumeration (model checking of the implementation), differential: well-formed entry sets x subsets of 11 malformed-neighbour '
             'kinds x EVERY permutation of the directory listing (owned by the shim) x 11 reader invocations, compared with the neighbour-free run')
LEVEL_TEXT = ('each reader (trash-list, trash-restore under 3 sort modes, trash-rm exact and *, trash-empty without/with DAYS) is run on a trash directory holding '
              'well-formed entries plus every subset (size <= 1, thorough <= 2) of malformed neighbours under every order in which readdir may return them; what is '
              'listed, offered, restored, removed and purged among the well-formed entries must equal the run on the directory without the neighbours')
LEVEL_NOTE = 'trusted: the shim\'s directory-order seam (listdir/scandir results are permuted); exit status and the fate of the malformed entries are don\'t-care'
RULE = ('W in {1 home entry, 1 home + 1 volume entry, 2 home entries} x M subsets (|M|<=1 quick, <=2 thorough) of {non-.trashinfo file, empty, header only, binary, '
        'non-UTF-8, no Path, no DeletionDate, bad date, the same two sharing the Path of a well-formed entry, info without payload, payload without info, directory named x.trashinfo, files named .trashinfo / ..trashinfo / ...trashinfo, a Path escape that is not UTF-8} x all permutations of info/ (<= 4!) x '
        'readers {list, list --files, list --size, restore date|path|none, rm exact, rm *, empty, empty 0, empty 7}; non-trivial = a malformed neighbour was read before a well-formed entry; '
        'distinct = (reader, neighbour kinds, outcome)')
MK = ['nontrashinfo', 'empty', 'header', 'binary', 'nonutf8', 'nopath', 'nodate', 'baddate', 'nopayload', 'orphan', 'dirinfo', 'nodate-samepath', 'baddate-samepath', 'dangling-link-info', 'loop-link-info', 'tzdate', 'noname-empty', 'noname-valid', 'dotname-valid', 'dotdotname-valid', 'badescape', 'two-strays', 'short-stray', 'nul-path', 'empty-path', 'maxdate-nopath', 'long-orphan', 'nonutf8-orphan']
READERS = ['list', 'list-files', 'list-size', 'restore-date', 'restore-path', 'restore-none', 'restore-cwd', 'rm-exact', 'rm-star', 'empty', 'empty0', 'empty7', 'empty-v', 'empty-dry']
WSETS = ['h1', 'h1+v1', 'h2']
TD = scen.HOME_TRASH
TDV = '/mnt/v1/.Trash-0'
NOW = '2024-05-06T07:08:09'


def dimensions(tier):
    return {'wsets': 3, 'malformed_kinds': len(MK), 'max_neighbours': 2 if tier == 'thorough' else 1, 'max_permutations': 24, 'readers': len(READERS)}


def n_info_entries(ws, ms):
    n = {'h1': 1, 'h1+v1': 1, 'h2': 2}[ws]
    return n + sum((2 if m == 'two-strays' else 1) for m in ms if m not in ('orphan', 'long-orphan', 'nonutf8-orphan'))


def cases(tier):
    out = []
    for ws in WSETS:
        for k in range(0, (2 if tier == 'thorough' else 1) + 1):
            for ms in itertools.combinations(MK, k):
                nperm = math.factorial(n_info_entries(ws, ms))
                for rd in READERS:
                    for pk in range(nperm):
                        out.append({'ws': ws, 'ms': list(ms), 'reader': rd, 'perm': pk})
    return out


def wentries(ws):
    e = [(TD, 'mid', '/home/u/w/mid', '2024-05-01T00:00:00')]        # recent (5 days old)
    if ws == 'h1+v1':
        e.append((TDV, 'vol', '/mnt/v1/p/vol', '2020-01-01T00:00:00'))
    if ws == 'h2':
        e.append((TD, 'old', '/home/u/w/old', '2020-01-01T00:00:00'))
    return e


def build(ws, ms):
    W = scen.base_world(mounts=['/', '/mnt/v1'], cwd='/home/u/w')
    scen.add_trash_dir(W, TD)
    for td, nm, loc, d in wentries(ws):
        pv = loc if td == TD else loc[len('/mnt/v1/'):]
        scen.add_trashed(W, td, nm, pv, d, payload='file', tag=nm)
    for m in ms:
        if m == 'nontrashinfo':
            W.file(TD + '/info/aaa-notes.txt', 'hello\n')
        elif m == 'empty':
            scen.add_trashed(W, TD, 'a-empty', None, raw='')
        elif m == 'header':
            scen.add_trashed(W, TD, 'b-header', None, raw='[Trash Info]\n')
        elif m == 'binary':
            scen.add_trashed(W, TD, 'c-binary', None, raw=b'\x00\x01\x02\x7f\n\x1b[0m'.decode('latin-1'))
        elif m == 'nonutf8':
            W.file(TD + '/info/d-nonutf8.trashinfo', b'[Trash Info]\nPath=/home/u/w/\xff\xfe\nDeletionDate=2020-01-01T00:00:00\n')
            W.file(TD + '/files/d-nonutf8', 'x')
        elif m == 'nopath':
            scen.add_trashed(W, TD, 'n-nopath', None, raw='[Trash Info]\nDeletionDate=2020-01-01T00:00:00\n')
        elif m == 'nodate':
            scen.add_trashed(W, TD, 'n-nodate', None, raw='[Trash Info]\nPath=/home/u/w/nodate\n')
        elif m == 'baddate':
            scen.add_trashed(W, TD, 'z-baddate', None, raw='[Trash Info]\nPath=/home/u/w/baddate\nDeletionDate=never\n')
        elif m == 'nodate-samepath':
            scen.add_trashed(W, TD, 'mid_1', None, raw='[Trash Info]\nPath=/home/u/w/mid\n')
        elif m == 'baddate-samepath':
            scen.add_trashed(W, TD, 'mid_2', None, raw='[Trash Info]\nPath=/home/u/w/mid\nDeletionDate=2024-13-45T99:00:00\n')
        elif m == 'noname-empty':
            W.file(TD + '/info/.trashinfo', '')
        elif m == 'noname-valid':
            W.file(TD + '/info/.trashinfo', '[Trash Info]\nPath=/home/u/w/noname\nDeletionDate=2001-01-01T00:00:00\n')
        elif m == 'dotname-valid':
            # '..trashinfo' names the payload 'files/.', '...trashinfo' names 'files/..' (the trash directory itself)
            W.file(TD + '/info/..trashinfo', '[Trash Info]\nPath=/home/u/w/dotname\nDeletionDate=2001-01-01T00:00:00\n')
        elif m == 'dotdotname-valid':
            W.file(TD + '/info/...trashinfo', '[Trash Info]\nPath=/home/u/w/dotdotname\nDeletionDate=2001-01-01T00:00:00\n')
        elif m == 'two-strays':
            W.file(TD + '/info/notes.txt', 'hello\n').file(TD + '/info/zz-more.bak', 'again\n')
        elif m == 'short-stray':
            W.file(TD + '/info/old0.bak', 'a name shorter than the .trashinfo suffix\n')
        elif m == 'maxdate-nopath':
            scen.add_trashed(W, TD, 'a-maxdate', None, raw='[Trash Info]\nDeletionDate=9999-12-31T23:59:59\n', payload=None)
        elif m == 'nonutf8-orphan':
            W.file(TD + '/files/nu8-\udcff', 'a payload without info whose name is not valid UTF-8\n')
        elif m == 'long-orphan':
            W.file(TD + '/files/' + 'O' * 250, 'a payload without info whose name leaves no room for the suffix\n')
        elif m == 'nul-path':
            scen.add_trashed(W, TD, 'k-nulpath', None, raw='[Trash Info]\nPath=/elsewhere/nu\x00l\nDeletionDate=2020-01-01T00:00:00\n')
        elif m == 'empty-path':
            scen.add_trashed(W, TD, 'k-emptypath', None, raw='[Trash Info]\nPath=\nDeletionDate=2020-01-01T00:00:00\n')
        elif m == 'badescape':
            scen.add_trashed(W, TD, 'e-badescape', None, raw='[Trash Info]\nPath=/home/u/w/caf%E9\nDeletionDate=2020-01-01T00:00:00\n')
        elif m == 'dangling-link-info':
            W.link(TD + '/info/g-dangling.trashinfo', 'no-such-file')
        elif m == 'loop-link-info':
            W.link(TD + '/info/l-loop.trashinfo', 'l-loop.trashinfo')
        elif m == 'tzdate':
            scen.add_trashed(W, TD, 't-tzdate', None, raw='[Trash Info]\nPath=/home/u/w/tzdate\nDeletionDate=2019-05-06T07:08:09+02:00\n')
        elif m == 'nopayload':
            scen.add_trashed(W, TD, 'z-nopayload', '/home/u/w/nopayload', '2020-01-01T00:00:00', payload=None)
        elif m == 'orphan':
            W.file(TD + '/files/orphan', 'orphan\n')
        elif m == 'dirinfo':
            W.dir(TD + '/info/y-dir.trashinfo')
    return W


def observe(ws, ms, reader, perm):
    """effects on the well-formed entries: dict entry -> state, plus listing facts"""
    W = build(ws, ms)
    ents = wentries(ws)
    plan = {'dir_order': ['perm', perm]}
    env = dict(W.env)
    obs = {}
    with cell.Sandbox(W.spec()) as sb:
        before = sb.snapshot()
        if reader == 'list':
            r = sb.run(['trash-list'], plan=plan, cwd='/')
            lines = r.out.split('\n')
            for td, nm, loc, d in ents:
                obs['listed:' + nm] = lines.count('%s %s' % (d.replace('T', ' '), loc))
        elif reader in ('list-files', 'list-size'):
            # the two other renderings of trash-list: "DATE PATH -> PAYLOAD" and "SIZE PATH"
            r = sb.run(['trash-list', '--' + reader.split('-')[1]], plan=plan, cwd='/')
            lines = r.out.split('\n')
            for td, nm, loc, d in ents:
                if reader == 'list-files':
                    obs['listed:' + nm] = lines.count('%s %s -> %s/files/%s' % (d.replace('T', ' '), loc, td, nm))
                else:
                    size = len(before['%s/files/%s' % (td, nm)][3])
                    obs['listed:' + nm] = lines.count('%d %s' % (size, loc))
        elif reader.startswith('restore'):
            so = reader.split('-')[1]
            scope, rcwd = (['/'], '/') if so != 'cwd' else ([], '/home/u/w')          # restore-cwd: no PATH argument, run from the directory the home entries came from
            so = 'date' if so == 'cwd' else so
            r0 = sb.run(['trash-restore', '--sort', so] + scope, plan=plan, cwd=rcwd, stdin='\n')
            listing = scen.parse_restore_listing(r0.out)
            target = ents[-1] if rcwd == '/' else ents[0]
            idx = [i for (i, d, p) in listing if p == target[2] and d == target[3].replace('T', ' ')]
            for td, nm, loc, d in ents:
                obs['offered:' + nm] = sum(1 for (i, dd, p) in listing if p == loc and dd == d.replace('T', ' '))
            if len(idx) == 1:
                r = sb.run(['trash-restore', '--sort', so] + scope, plan=plan, cwd=rcwd, stdin='%d\n' % idx[0])
            else:
                r = r0
            after = sb.snapshot()
            for td, nm, loc, d in ents:
                st = scen.entry_state(before, after, td, nm)
                if st == 'purged' and world.same_entry(before, '%s/files/%s' % (td, nm), after, loc):
                    st = 'restored'
                obs['state:' + nm] = st
        else:
            argv = {'rm-exact': ['trash-rm', ents[-1][2].rsplit('/', 1)[1]], 'rm-star': ['trash-rm', '*'], 'empty': ['trash-empty'],
                    'empty0': ['trash-empty', '0'], 'empty7': ['trash-empty', '7'], 'empty-v': ['trash-empty', '-v'],
                    'empty-dry': ['trash-empty', '--dry-run']}[reader]
            r = sb.run(argv, plan=plan, cwd='/', now=NOW)
            after = sb.snapshot()
            for td, nm, loc, d in ents:
                obs['state:' + nm] = scen.entry_state(before, after, td, nm)
                if reader == 'empty-dry':
                    obs['announced:' + nm] = ('would remove %s/files/%s\n' % (td, nm)) in r.out and ('would remove %s/info/%s.trashinfo\n' % (td, nm)) in r.out
            if reader.startswith('rm'):
                # an info without a Path has no original name: no pattern can match it (C20: rm matches what list prints)
                for m in ms:
                    nm = {'empty': 'a-empty', 'header': 'b-header', 'nopath': 'n-nopath'}.get(m)
                    if nm and scen.info_of(after, TD, nm) is None:
                        obs['pathless-entry-removed-by-rm:' + nm] = True
        # did a malformed neighbour get read before a well-formed one?
        order = [t[2][0] for t in r.trace if t[1] == 'fopen' and '/info/' in t[2][0]]
    return obs, {'exit': r.exit, 'err': r.err[-400:], 'read_order': [p.rsplit('/', 1)[1] for p in order][:8]}


def run_case(c):
    base, _ = observe(c['ws'], [], c['reader'], 0)
    got, info = observe(c['ws'], c['ms'], c['reader'], c['perm'])
    detail = dict(info, ws=c['ws'], ms=c['ms'], reader=c['reader'], perm=c['perm'], base=base, got=got)
    wnames = {'mid.trashinfo', 'vol.trashinfo', 'old.trashinfo'}
    ro = info['read_order']
    first_w = min([i for i, n in enumerate(ro) if n in wnames] or [99])
    mal_first = any(n not in wnames for n in ro[:first_w]) if c['ms'] else False
    nt = (mal_first or not c['ms']) and ('%s|%s|%s' % (c['reader'], ','.join(c['ms']) or 'none', 'same' if got == base else 'differs'))
    if got != base:
        diffkeys = sorted(k for k in set(base) | set(got) if base.get(k) != got.get(k))
        k0 = diffkeys[0].split(':')[0]
        return {'verdict': 'viol', 'sig': 'C19|%s|neighbours=%s|well-formed-entry-%s-differs' % (c['reader'], '+'.join(c['ms']), k0),
                'klass': 'neighbour-changed-outcome', 'nontrivial': nt, 'execs': 2, 'detail': detail}
    return {'verdict': 'ok', 'klass': 'projection-equal', 'nontrivial': nt, 'execs': 2, 'detail': detail}


def main(tier, seed):
    return product.run(sys.modules[__name__], tier, seed)


def replay(path):
    return product.replay(sys.modules[__name__], path)
