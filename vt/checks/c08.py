"""C08 -- an insecure shared $topdir/.Trash is never used, for writing, reading or purging.

E1 product: .Trash state x populated .Trash/$uid x the five commands x volume set; second stage: one failing call
(every operation of the fault-free trace x every errno that reports a failure) for the insecure states."""
import os
import sys

from .. import cell, scen, world
from ..explore import faults, product

PID = 'C08'
LEVEL = 'exploration'
TECHNIQUE = ('bounded-exhaustive enumeration (model checking of the implementation): product of $topdir/.Trash states x commands x '
             'volume sets on the real scripts under a virtual mount table; subtree-unchanged / not-listed oracle with a secure control group; '
             'plus exhaustive single-fault injection (deviation bound 1) over the traces of the insecure states')
LEVEL_TEXT = ('every state of $topdir/.Trash (sticky dir, non-sticky dir, symlink to sticky / non-sticky dir, regular file, absent) with '
              'a populated .Trash/$uid is presented to each of the five commands; insecure => the subtree is byte-identical afterwards and '
              'none of its entries is listed, offered, restored or purged; secure control => it IS used (no vacuous pass); the two never-used clauses are also '
              'checked when any single file-system call of the run fails (EACCES, EIO, ENAMETOOLONG, ...; not ENOENT / ENOTDIR, which describe another world)')
LEVEL_NOTE = 'trusted: shim mount table / psutil substitute; ownership checks of .Trash/$uid itself are not part of the property'
RULE = ('.Trash state (8, incl. mode 2777 and 0700) x command (put, list, restore+reply, empty, empty 0, rm *, rm exact, list --all-users and empty --all-users with three accounts in /etc/passwd, list --size, list --files, put with .Trash-uid blocked by a regular file) x volumes (v1 only; v1 insecure + v2 secure; a secure v0 listed before v1) x uid '
        '(0, 1000); non-trivial = the command examined the volume (stat of .Trash seen in the trace); distinct = outcome class x state x command; '
        'fault stage: insecure state (7) x command (5 quick / 11 thorough) on one volume x every operation of the fault-free trace x every failure errno of that call, one fault per run')
STATES = ['sticky', 'nonsticky', 'nonsticky-uidlink', 'nonsticky-setgid', 'nonsticky-private', 'symlink-sticky', 'symlink-nonsticky', 'file', 'absent']
CMDS = ['put', 'list', 'restore', 'empty', 'empty0', 'rm-star', 'rm-exact', 'put-then-insecure', 'list-all-users', 'empty-all-users', 'list-size', 'list-files', 'put-alt-blocked', 'restore-empty-td']
VOLS = ['v1', 'v1+v2', 'v1-sticky-topdir', 'v0+v1']


def dimensions(tier):
    return {'state': len(STATES), 'command': len(CMDS), 'volumes': len(VOLS), 'uid': 2}


def cases(tier):
    out = [{'st': s, 'cmd': c, 'vols': v, 'uid': u} for u in (0, 1000) for v in VOLS for c in CMDS for s in STATES]
    # a volume whose mount point merely EXTENDS the text of $HOME (/home/u-usb next to HOME=/home/u): no special treatment
    out += [{'st': s, 'cmd': 'put', 'vols': 'home-prefix', 'uid': u} for u in (0, 1000) for s in STATES if s != 'nonsticky-uidlink']
    # the volume list comes from TRASH_VOLUMES and spells the volume as LINK/.. (and with doubled / trailing slashes)
    out += [{'st': 'sticky', 'cmd': cmd, 'vols': 'env-' + sp, 'uid': u} for u in (0, 1000) for sp in ('dotdot', 'slashes') for cmd in ('list', 'empty', 'empty0', 'rm-star')]
    return out


FAULT_CMDS = {'quick': ['put', 'list', 'restore', 'empty', 'rm-star'],
              'thorough': ['put', 'list', 'restore', 'empty', 'empty0', 'rm-star', 'rm-exact', 'list-size', 'list-files', 'list-all-users', 'empty-all-users']}


def fault_stage(tier, cases_, outs):
    """"never used" must not depend on the file system being well-behaved: for every insecure state x command (one volume),
    every operation of the fault-free trace answers once with every errno it can return; only the two clauses that have a
    verdict after an error are judged - the subtree is unchanged, and none of its entries is shown"""
    cmds = FAULT_CMDS['thorough' if tier == 'thorough' else 'quick']
    out = []
    for c, o in zip(cases_, outs):
        if c['vols'] == 'v1' and c['st'] not in ('sticky', 'absent') and c['cmd'] in cmds and o.get('ops') and (tier == 'thorough' or c['uid'] == 0):
            for f in faults.single_faults(o['ops']):
                if f['errno'] in ('ENOENT', 'ENOTDIR'):
                    continue        # "it is not there" is an answer about the world, not a failure to find out: indistinguishable from .Trash having been
                                    # removed by somebody else at that instant, and then the state column of this case no longer describes the world
                out.append(dict({k: c[k] for k in ('st', 'cmd', 'vols', 'uid')}, faults=[f]))
    return out


def populate(W, base, uid, vol, tag):
    td = '%s/%d' % (base, uid)
    W.dir(td, mode=0o700).dir(td + '/files', mode=0o700).dir(td + '/info', mode=0o700)
    for n in ('one', 'two'):
        W.file('%s/files/%s' % (td, n), 'trashed %s %s\n' % (n, tag))
        W.file('%s/info/%s.trashinfo' % (td, n), '[Trash Info]\nPath=w/%s-%s\nDeletionDate=2020-01-0%dT00:00:00\n' % (
            n, tag, 1 + (n == 'two')))
    W.file('%s/files/stray' % td, 'orphan payload %s\n' % tag)
    return td


def run_home_prefix(c):
    uid, st, V = c['uid'], c['st'], '/home/u-usb'
    W = scen.base_world(mounts=['/', V], uid=uid, cwd=V + '/w')
    W.dir(V + '/w').file(V + '/w/new', 'to be trashed\n')
    phys = None
    if st == 'sticky':
        W.dir(V + '/.Trash', mode=0o1777)
        phys = V + '/.Trash'
    elif st.startswith('nonsticky'):
        W.dir(V + '/.Trash', mode={'nonsticky': 0o777, 'nonsticky-private': 0o700, 'nonsticky-setgid': 0o2777}[st])
        phys = V + '/.Trash'
    elif st.startswith('symlink'):
        W.dir(V + '/.real', mode=0o1777 if st == 'symlink-sticky' else 0o777).link(V + '/.Trash', '.real')
        phys = V + '/.real'
    elif st == 'file':
        W.file(V + '/.Trash', 'x')
    td = populate(W, phys, uid, V, 'hp') if phys else None
    with cell.Sandbox(W.spec()) as sb:
        before = sb.snapshot()
        r = sb.run(['trash-put', 'new'], cwd=V + '/w', now='2024-06-06T06:06:06')
        after = sb.snapshot()
    detail = {'exit': r.exit, 'err': r.err[-400:]}
    dims = 'st=%s|cmd=put|home-prefix-volume' % st
    in_alt = bool(world.under(after, '%s/.Trash-%d/files/new' % (V, uid)))
    in_top = bool(td and world.under(after, td + '/files/new'))
    if st == 'sticky':
        ok = in_top
        return {'verdict': 'ok' if ok else 'viol', 'sig': 'C08|secure-top-not-used|cmd=put|home-prefix-volume', 'klass': 'secure:used' if ok else 'secure-not-used',
                'nontrivial': 'used|' + dims, 'detail': detail}
    sub_b, sub_a = world.under(before, phys or V + '/.Trash'), world.under(after, phys or V + '/.Trash')
    if sub_b != sub_a:
        return {'verdict': 'viol', 'sig': 'C08|insecure-top-modified|cmd=put|st=%s|home-prefix-volume' % ('symlink' if 'symlink' in st else st), 'klass': 'insecure-modified',
                'nontrivial': 'mod|' + dims, 'detail': detail}
    if not in_alt or r.exit != 0:
        return {'verdict': 'viol', 'sig': 'C08|put-did-not-fall-through|st=%s|home-prefix-volume' % st, 'klass': 'no-fallthrough', 'nontrivial': 'nofall|' + dims, 'detail': detail}
    return {'verdict': 'ok', 'klass': 'insecure:ignored', 'nontrivial': 'ignored|' + dims, 'detail': detail}


def run_env_volumes(c):
    uid = c['uid']
    W = scen.base_world(mounts=['/', '/mnt/v1'], uid=uid, cwd='/')
    W.dir('/mnt/v1/sub').link('/mnt/lk', '/mnt/v1/sub')
    spelled = '/mnt/lk/..' if c['vols'] == 'env-dotdot' else '//mnt//v1/'
    W.dir('/mnt/v1/.Trash', mode=0o1777)
    good = populate(W, '/mnt/v1/.Trash', uid, '/mnt/v1', 'v1')          # the volume really named: sticky .Trash, must be used
    W.dir('/mnt/.Trash', mode=0o777)
    bad = populate(W, '/mnt/.Trash', uid, '/mnt', 'lookalike')        # where LINK/.. collapses to lexically: not sticky, not a volume at all
    argv = {'list': ['trash-list'], 'empty': ['trash-empty'], 'empty0': ['trash-empty', '0'], 'rm-star': ['trash-rm', '*']}[c['cmd']]
    env = dict(W.env, TRASH_VOLUMES=spelled)
    with cell.Sandbox(W.spec()) as sb:
        before = sb.snapshot()
        r = sb.run(argv, cwd='/', env=env, now='2024-06-06T06:06:06')
        after = sb.snapshot()
    detail = {'argv': argv, 'TRASH_VOLUMES': spelled, 'exit': r.exit, 'out': r.out[-300:], 'err': r.err[-300:]}
    dims = 'vols=%s|cmd=%s' % (c['vols'], c['cmd'])
    if world.under(before, '/mnt/.Trash') != world.under(after, '/mnt/.Trash') or 'lookalike' in r.out:
        return {'verdict': 'viol', 'sig': 'C08|insecure-top-%s|cmd=%s|TRASH_VOLUMES-spelling' % ('shown' if 'lookalike' in r.out else 'modified', c['cmd']), 'klass': 'insecure-used',
                'nontrivial': 'bad|' + dims, 'detail': detail}
    used = ('one-v1' in r.out) if c['cmd'] == 'list' else not world.under(after, good + '/files/one')
    if not used:
        return {'verdict': 'viol', 'sig': 'C08|secure-top-not-used|cmd=%s|TRASH_VOLUMES-spelling' % c['cmd'], 'klass': 'secure-not-used', 'nontrivial': 'notused|' + dims, 'detail': detail}
    return {'verdict': 'ok', 'klass': 'secure:used', 'nontrivial': 'used|' + dims, 'detail': detail}


def run_case(c):
    if c['vols'].startswith('env-'):
        return run_env_volumes(c)
    if c['vols'] == 'home-prefix':
        return run_home_prefix(c)
    uid = c['uid']
    mounts = ['/'] + (['/mnt/v0'] if c['vols'] == 'v0+v1' else []) + ['/mnt/v1'] + (['/mnt/v2'] if c['vols'] == 'v1+v2' else [])
    W = scen.base_world(mounts=mounts, uid=uid, cwd='/mnt/v1/w')
    W.dir('/mnt/v1/w').file('/mnt/v1/w/new', 'to be trashed\n')
    if c['vols'] == 'v1-sticky-topdir':
        W.dir('/mnt/v1', mode=0o1777)        # the volume's top directory itself is sticky (like /tmp): irrelevant for the .Trash checks
    alt = '/mnt/v1/.Trash-%d' % uid
    if c['cmd'] == 'put-alt-blocked':
        W.file(alt, 'a regular file where .Trash-$uid would be\n')               # no usable directory is left on the volume: the put has to FAIL
    else:
        scen.add_trashed(W, alt, 'myalt', 'w/myalt-x1', '2020-01-03T00:00:00')      # the user's own .Trash-$uid is always usable
    st = c['st']
    phys = None
    if st == 'sticky':
        W.dir('/mnt/v1/.Trash', mode=0o1777)
        phys = '/mnt/v1/.Trash'
    elif st == 'nonsticky-uidlink':
        # .Trash is not sticky AND the $uid entry in it is a symbolic link to a populated directory kept elsewhere on the volume
        W.dir('/mnt/v1/.Trash', mode=0o777)
        phys = '/mnt/v1/.store'
    elif st in ('nonsticky', 'nonsticky-private', 'nonsticky-setgid'):
        W.dir('/mnt/v1/.Trash', mode={'nonsticky': 0o777, 'nonsticky-private': 0o700, 'nonsticky-setgid': 0o2777}[st])
        phys = '/mnt/v1/.Trash'
    elif st in ('symlink-sticky', 'symlink-nonsticky'):
        W.dir('/mnt/v1/.real', mode=0o1777 if st == 'symlink-sticky' else 0o777).link('/mnt/v1/.Trash', '.real')
        phys = '/mnt/v1/.real'
    elif st == 'file':
        W.file('/mnt/v1/.Trash', 'x')
    td = populate(W, phys, uid, '/mnt/v1', 'v1') if phys else None
    if st == 'nonsticky-uidlink':
        W.link('/mnt/v1/.Trash/%d' % uid, '/mnt/v1/.store/%d' % uid)
    OTHER = 1001
    if c['cmd'].endswith('-all-users'):
        # three accounts: one without any trash directory (listed first), the invoking user, and another user whose $topdir/.Trash/$uid is populated too
        W.file('/etc/passwd', 'ghost:x:4242:4242::/home/ghost:/bin/sh\nme:x:%d:%d::/home/u:/bin/sh\nbob:x:%d:%d::/home/bob:/bin/sh\n' % (uid, uid, OTHER, OTHER))
        if phys:
            populate(W, phys, OTHER, '/mnt/v1', 'v1b')
    if c['vols'] == 'v0+v1':
        # a volume with a perfectly good sticky .Trash/$uid comes first in the mount table
        W.dir('/mnt/v0/.Trash', mode=0o1777)
        populate(W, '/mnt/v0/.Trash', uid, '/mnt/v0', 'v0')
    if c['vols'] == 'v1+v2':
        W.dir('/mnt/v2/.Trash', mode=0o1777)
        td2 = populate(W, '/mnt/v2/.Trash', uid, '/mnt/v2', 'v2')
    cmd = c['cmd']
    argv, stdin = {'put': (['trash-put', 'new'], None), 'list': (['trash-list'], None),
                   'restore': (['trash-restore', '/'], '0\n'), 'empty': (['trash-empty'], None),
                   'empty0': (['trash-empty', '0'], None), 'rm-star': (['trash-rm', '*'], None),
                   'rm-exact': (['trash-rm', '/mnt/v1/w/one-v1'], None), 'put-then-insecure': (None, None),
                   'list-size': (['trash-list', '--size'], None), 'list-files': (['trash-list', '--files'], None),
                   'put-alt-blocked': (['trash-put', 'new'], None),
                   'restore-empty-td': (['trash-restore', '--trash-dir', '', '/'], '0\n'),          # an empty option value (an unset shell variable): like no option at all
                   'list-all-users': (['trash-list', '--all-users'], None), 'empty-all-users': (['trash-empty', '--all-users'], None)}[cmd]
    if cmd == 'put-then-insecure':
        return run_put_then_insecure(c, W, uid, td)
    with cell.Sandbox(W.spec()) as sb:
        before = sb.snapshot()
        flts = c.get('faults') or []
        r = sb.run(argv, stdin=stdin, cwd='/mnt/v1/w', now='2024-06-06T06:06:06', plan={'faults': flts} if flts else None)
        after = sb.snapshot()
    secure = st == 'sticky'
    detail = {'argv': argv, 'exit': r.exit, 'out': r.out[-400:], 'err': r.err[-400:]}
    if flts:
        return judge_faulted(c, r, before, after, detail, flts)
    res = judge(c, r, before, after, detail, uid, alt, st, td, phys, OTHER, cmd, secure)
    if c['vols'] == 'v1' and isinstance(res, dict):
        res['ops'] = faults.ops_of(r.trace)
    return res


def judge_faulted(c, r, before, after, detail, flts):
    st, cmd = c['st'], c['cmd']
    f = flts[0]
    delivered = any(t[0] == f['at'] and t[4] == f['errno'] for t in r.trace)
    where = '/mnt/v1/.real' if st in ('symlink-sticky', 'symlink-nonsticky') else ('/mnt/v1/.store' if st == 'nonsticky-uidlink' else '/mnt/v1/.Trash')
    sub_b, sub_a = world.under(before, where), world.under(after, where)
    if st == 'nonsticky-uidlink' and world.under(before, '/mnt/v1/.Trash') != world.under(after, '/mnt/v1/.Trash'):
        sub_a = dict(sub_a, **{'(.Trash itself)': ('changed',)})
    link_same = before.get('/mnt/v1/.Trash') == after.get('/mnt/v1/.Trash') or before.get('/mnt/v1/.Trash', ('x',))[0] == 'd'
    detail = dict(detail, faults=flts)
    dims = 'st=%s|cmd=%s|%s:%s' % (st, cmd, f['op'], f['errno'])
    kind = 'symlink' if 'symlink' in st else st
    if sub_b != sub_a or not link_same:
        changed = sorted(k for k in set(sub_b) | set(sub_a) if sub_b.get(k) != sub_a.get(k))
        return {'verdict': 'viol', 'sig': 'C08|insecure-top-modified|cmd=%s|st=%s|after-%s-%s' % (cmd, kind, f['op'], f['errno']), 'klass': 'insecure-modified-under-fault',
                'nontrivial': delivered and ('mod|' + dims), 'detail': dict(detail, changed=changed[:8]), 'delivered': delivered}
    if ('one-v1' in r.out or 'two-v1' in r.out) and cmd.startswith(('list', 'restore')):
        return {'verdict': 'viol', 'sig': 'C08|insecure-top-shown|cmd=%s|st=%s|after-%s-%s' % (cmd, kind, f['op'], f['errno']), 'klass': 'insecure-shown-under-fault',
                'nontrivial': delivered and ('shown|' + dims), 'detail': detail, 'delivered': delivered}
    return {'verdict': 'ok', 'klass': 'insecure:ignored-under-fault', 'nontrivial': delivered and ('ignored|' + dims), 'detail': detail, 'delivered': delivered}


def judge(c, r, before, after, detail, uid, alt, st, td, phys, OTHER, cmd, secure):
    if cmd in ('restore', 'restore-empty-td') and ('myalt-x1' not in r.out or (c['vols'] == 'v1+v2' and 'one-v2' not in r.out)):
        return {'verdict': 'viol', 'sig': 'C08|restore-does-not-offer-entries-of-usable-trash-dirs|st=%s' % st, 'klass': 'usable-not-offered',
                'detail': {'out': r.out[-400:], 'err': r.err[-300:]}}
    if cmd in ('list', 'list-all-users', 'list-size', 'list-files') and 'myalt-x1' not in r.out:
        return {'verdict': 'viol', 'sig': 'C08|own-Trash-uid-not-listed|st=%s' % st, 'klass': 'alt-not-listed', 'detail': {'out': r.out[-300:], 'err': r.err[-300:]}}
    if cmd in ('empty', 'rm-star', 'empty-all-users') and world.under(after, alt + '/files/myalt'):
        return {'verdict': 'viol', 'sig': 'C08|own-Trash-uid-not-purged|cmd=%s|st=%s' % (cmd, st), 'klass': 'alt-not-purged', 'detail': {'err': r.err[-300:]}}
    examined = any('/mnt/v1/.Trash' in p for t in r.trace for p in t[2])
    dims = 'st=%s|cmd=%s' % (st, cmd)
    where = '/mnt/v1/.real' if st in ('symlink-sticky', 'symlink-nonsticky') else ('/mnt/v1/.store' if st == 'nonsticky-uidlink' else '/mnt/v1/.Trash')
    sub_b, sub_a = world.under(before, where), world.under(after, where)
    if st == 'nonsticky-uidlink' and world.under(before, '/mnt/v1/.Trash') != world.under(after, '/mnt/v1/.Trash'):
        sub_a = dict(sub_a, **{'(.Trash itself)': ('changed',)})
    link_same = before.get('/mnt/v1/.Trash') == after.get('/mnt/v1/.Trash') or before.get('/mnt/v1/.Trash', ('x',))[0] == 'd'
    mentions = 'one-v1' in r.out or 'two-v1' in r.out
    if st == 'absent':
        if cmd == 'put':
            ok = after.get('/mnt/v1/.Trash') is None and world.under(after, '/mnt/v1/.Trash-%d/files/new' % uid)
            return {'verdict': 'ok' if ok else 'viol', 'sig': 'C08|absent-top-created|cmd=put', 'klass': 'absent:put->.Trash-uid' if ok else 'absent-top-created',
                    'nontrivial': examined and ('absent|' + dims), 'detail': detail}
        return {'verdict': 'ok', 'klass': 'absent:nothing-to-use', 'nontrivial': examined and ('absent|' + dims), 'detail': detail}
    if not secure:
        if sub_b != sub_a or not link_same:
            changed = sorted(k for k in set(sub_b) | set(sub_a) if sub_b.get(k) != sub_a.get(k))
            return {'verdict': 'viol', 'sig': 'C08|insecure-top-modified|cmd=%s|st=%s' % (cmd, 'symlink' if 'symlink' in st else st),
                    'klass': 'insecure-modified', 'nontrivial': 'mod|' + dims, 'detail': dict(detail, changed=changed[:8])}
        if mentions and cmd in ('list', 'restore', 'restore-empty-td', 'list-all-users', 'list-size', 'list-files'):
            return {'verdict': 'viol', 'sig': 'C08|insecure-top-shown|cmd=%s|st=%s' % (cmd, 'symlink' if 'symlink' in st else st),
                    'klass': 'insecure-shown', 'nontrivial': 'shown|' + dims, 'detail': detail}
        if cmd == 'put':
            if not world.under(after, '/mnt/v1/.Trash-%d/files/new' % uid) or r.exit != 0:
                return {'verdict': 'viol', 'sig': 'C08|put-did-not-fall-through|st=%s' % st, 'klass': 'no-fallthrough',
                        'nontrivial': 'nofall|' + dims, 'detail': detail}
        if cmd == 'put-alt-blocked':
            if r.exit == 0 or not world.under(after, '/mnt/v1/w/new'):
                return {'verdict': 'viol', 'sig': 'C08|put-succeeded-although-no-secure-directory-is-usable|st=%s' % st, 'klass': 'insecure-used-as-last-resort',
                        'nontrivial': 'lastresort|' + dims, 'detail': detail}
            return {'verdict': 'ok', 'klass': 'insecure:put-failed-cleanly', 'nontrivial': examined and ('failed|' + dims), 'detail': detail}
        if cmd in ('list', 'list-size', 'list-files') and st in ('nonsticky', 'nonsticky-uidlink', 'nonsticky-private', 'nonsticky-setgid', 'symlink-sticky', 'symlink-nonsticky') and '/mnt/v1/.Trash' not in r.err:
            return {'verdict': 'viol', 'sig': 'C08|list-silent-about-skipped-dir|st=%s' % st, 'klass': 'list-silent',
                    'nontrivial': 'silent|' + dims, 'detail': detail}
        if cmd == 'list-all-users' and st in ('nonsticky', 'nonsticky-private', 'nonsticky-setgid', 'symlink-sticky', 'symlink-nonsticky'):
            silent = [u for u in (uid, OTHER) if '/mnt/v1/.Trash/%d' % u not in r.err]
            if silent:
                return {'verdict': 'viol', 'sig': 'C08|list-silent-about-skipped-dir|all-users|st=%s' % st, 'klass': 'list-silent',
                        'nontrivial': 'silent|' + dims, 'detail': dict(detail, not_reported_for_uid=silent)}
        if c['vols'] == 'v1+v2' and cmd in ('list', 'list-size', 'list-files') and not ('one-v2' in r.out and 'two-v2' in r.out):
            return {'verdict': 'viol', 'sig': 'C08|secure-volume-not-listed', 'klass': 'secure-not-listed', 'detail': detail}
        return {'verdict': 'ok', 'klass': 'insecure:ignored', 'nontrivial': examined and ('ignored|' + dims), 'detail': detail}
    # secure control group: the directory must be used
    used = {'put': bool(world.under(after, td + '/files/new')), 'put-alt-blocked': bool(world.under(after, td + '/files/new')),
            'list': mentions, 'list-size': mentions, 'list-files': mentions, 'restore': mentions, 'restore-empty-td': mentions,
            'empty': not world.under(after, td + '/files/one'), 'empty0': not world.under(after, td + '/files/one'),
            'rm-star': not world.under(after, td + '/files/one'), 'rm-exact': not world.under(after, td + '/files/one'),
            'list-all-users': 'one-v1b' in r.out and '/mnt/v1/w/one-v1\n' in r.out,
            'empty-all-users': not world.under(after, td + '/files/one') and not world.under(after, '%s/%d/files/one' % (phys, OTHER))}[cmd]
    if not used:
        return {'verdict': 'viol', 'sig': 'C08|secure-top-not-used|cmd=%s' % cmd, 'klass': 'secure-not-used', 'nontrivial': 'notused|' + dims,
                'detail': detail}
    return {'verdict': 'ok', 'klass': 'secure:used', 'nontrivial': 'used|' + dims, 'detail': detail}


def run_put_then_insecure(c, W, uid, td):
    """one `trash-put -i new new2`: .Trash is a sticky directory when the first argument is trashed and loses the sticky
    bit (somebody runs chmod) while the command waits at the prompt for the second argument"""
    if c['st'] != 'sticky':
        return {'verdict': 'ok', 'klass': 'n/a', 'detail': {}}
    W.file('/mnt/v1/w/new2', 'second\n')
    with cell.Sandbox(W.spec()) as sb:
        def chmod(s):
            os.chmod(s.root + '/mnt/v1/.Trash', 0o777)
        r = sb.run_dialogue(['trash-put', '-i', 'new', 'new2'], [(None, 'y'), (chmod, 'y')], cwd='/mnt/v1/w', now='2024-06-06T06:06:06')
        after = sb.snapshot()
    detail = {'exit': r.exit, 'out': r.out[-300:], 'err': r.err[-300:]}
    first_in_top = bool(world.under(after, td + '/files/new'))
    second_in_top = bool(world.under(after, td + '/files/new2'))
    second_in_alt = bool(world.under(after, '/mnt/v1/.Trash-%d/files/new2' % uid))
    if second_in_top:
        return {'verdict': 'viol', 'sig': 'C08|used-Trash-uid-after-it-became-insecure-during-the-run', 'klass': 'stale-security-decision',
                'nontrivial': 'toctou|viol', 'detail': detail}
    if not (first_in_top and second_in_alt):
        return {'verdict': 'dontcare', 'klass': 'put-then-insecure:other', 'detail': detail}
    return {'verdict': 'ok', 'klass': 'put-then-insecure:rechecked', 'nontrivial': 'toctou|ok', 'detail': detail}


def main(tier, seed):
    return product.run(sys.modules[__name__], tier, seed)


def replay(path):
    return product.replay(sys.modules[__name__], path)
