"""C16 -- trash-put's exit status tells the truth and arguments are handled independently.

E1 product, differential: every argument list of length 1..3 (thorough 1..4) over 9 argument classes, in every
order, x 6 modes; each argument's outcome is compared with its outcome when it is the only argument."""
import itertools
import re
import sys

from .. import cell, scen, world
from ..explore import product

PID = 'C16'
LEVEL = 'exploration'
TECHNIQUE = ('bounded-exhaustive enumeration (model checking of the implementation), differential: all argument sequences up to length 3/4 over 9 '
             'argument classes x 6 modes on the real trash-put; per-argument snapshot classification vs the same argument run alone')
LEVEL_TEXT = ('every sequence of argument classes (trashable file/dir/symlink, nonexistent, ".", "..", non-UTF-8 name, un-trashable by layout, duplicate of the '
              'previous, the empty string, a name starting with @, a mount point) is executed; exit status must be 0 iff every argument was trashed or legitimately skipped, every failed argument must be named on '
              'stderr, and each argument must end exactly as when it is run alone on the same initial world')
LEVEL_NOTE = 'trusted: snapshot classifier; end-of-input at an -i prompt is excluded (covered by C01); permission failures are not modelled (root)'
RULE = ('sequences of length 1..3 (thorough 1..4) over {file, dir, link, dangling link, missing, dot, dotdot, nonutf8, untrashable, dup, empty string, @name (the last two only in sequences of length <= 2 in the quick tier)} (dup not first) x mode {-, -f, -i all y, '
        '-i all n, -i alternating y/n, -i alternating y/empty/blank, -v, HOME with regex metacharacters, --trash-dir on the home volume (one candidate shared by arguments of several volumes)}; non-trivial = at least two arguments with different outcomes; distinct = (mode, multiset of classes, exit, outcome vector)')
CLASSES = ['file', 'dir', 'link', 'dangling', 'missing', 'dot', 'dotdot', 'nonutf8', 'untrashable', 'dup', 'emptystr', 'atname', 'mountpoint', 'unreachable']
NEWER = ('emptystr', 'atname', 'mountpoint', 'unreachable')          # quick: only in sequences of length <= 2
MODES = ['-', '-f', '-iy', '-in', '-ialt', '-iblank', '-v', 'odd-home', 'td-home']
B = '/home/u/w'
PROMPT = re.compile(r"trash-put: trash .*? '(.*?)'\? ", re.S)


def dimensions(tier):
    return {'classes': len(CLASSES), 'max_len': 4 if tier == 'thorough' else 3, 'modes': len(MODES)}


def cases(tier):
    out = []
    for mode in MODES:
        for k in range(1, (4 if tier == 'thorough' else 3) + 1):
            for seq in itertools.product(CLASSES, repeat=k):
                if seq[0] == 'dup':
                    continue
                if k >= 3 and tier != 'thorough' and any(x in NEWER for x in seq):
                    continue
                out.append({'seq': list(seq), 'mode': mode})
    return out


def make_world(seq):
    W = scen.base_world(mounts=['/', '/mnt/vb', '/mnt/vc'], cwd=B)
    W.file('/mnt/vc/inside', 'content of the mounted volume\n')
    W.file('/mnt/vb/.Trash', 'blocked').file('/mnt/vb/.Trash-0', 'blocked')
    args = []
    for i, cl in enumerate(seq):
        if cl == 'file':
            scen.add_entry(W, '%s/f%d' % (B, i), 'file')
            args.append(('f%d' % i, '%s/f%d' % (B, i)))
        elif cl == 'dir':
            scen.add_entry(W, '%s/d%d' % (B, i), 'tree')
            args.append(('d%d' % i, '%s/d%d' % (B, i)))
        elif cl == 'link':
            scen.add_entry(W, '%s/l%d' % (B, i), 'lfile')
            args.append(('l%d' % i, '%s/l%d' % (B, i)))
        elif cl == 'dangling':
            scen.add_entry(W, '%s/g%d' % (B, i), 'ldang')
            args.append(('g%d' % i, '%s/g%d' % (B, i)))
        elif cl == 'missing':
            args.append(('missing%d' % i, None))
        elif cl == 'dot':
            args.append(('.', None))
        elif cl == 'dotdot':
            args.append(('..', None))
        elif cl == 'nonutf8':
            n = 'nu8-%d-100%%s-\udcff' % i
            W.file('%s/%s' % (B, n), 'bytes\n')
            args.append((n, '%s/%s' % (B, n)))
        elif cl == 'untrashable':
            W.file('/mnt/vb/u%d %%d%%' % i, 'stuck\n')
            args.append(('/mnt/vb/u%d %%d%%' % i, '/mnt/vb/u%d %%d%%' % i))
        elif cl == 'unreachable':
            # names nothing, and the kernel says so with another errno than ENOENT: a component of 300 bytes (odd positions) / a symlink loop (even positions)
            if i % 2:
                args.append(('X' * 300, None))
            else:
                W.link('%s/loop%d' % (B, i), 'loop%d' % i)
                args.append(('loop%d/x' % i, None))
        elif cl == 'mountpoint':
            args.append(('/mnt/vc', '/mnt/vc'))          # a mount point: its move is refused by itself (EBUSY), after the .trashinfo was written
        elif cl == 'emptystr':
            args.append(('', None))                       # e.g. an unset shell variable: names nothing, must count as a failure
        elif cl == 'atname':
            W.file('%s/@a%d' % (B, i), 'a file whose name starts with @\n')
            W.file('%s/a%d' % (B, i), 'not-an-argument-%d\n' % i)          # a sibling that an @file reader would take for an argument list
            args.append(('@a%d' % i, '%s/@a%d' % (B, i)))
        elif cl == 'dup':
            args.append(args[-1])
    return W, args


def run_list(W, argv_args, mode, replies):
    argv = ['trash-put'] + {'-': [], '-f': ['-f'], '-v': ['-v'], 'odd-home': [], 'td-home': ['--trash-dir', '/home/u/T']}.get(mode, ['-i']) + [a for a, _ in argv_args]
    stdin = ''.join(r + '\n' for r in replies) if mode.startswith('-i') else None
    env = None
    if mode == 'odd-home':
        W.dir('/home/o(h +[x')
        env = {'HOME': '/home/o(h +[x'}          # a home directory whose name is not a valid regular expression
    with cell.Sandbox(W.spec()) as sb:
        before = sb.snapshot()
        r = sb.run(argv, stdin=stdin, cwd=B, now='2024-04-04T04:04:04', env=env)
        after = sb.snapshot()
    return before, r, after


def outcomes(before, r, after, args, mode):
    """per-argument: (state, declined?)"""
    # one prompt = one stdout chunk ending in "? "; it belongs to the argument whose name appears last in it
    # (independent of the wording of the question)
    prompts = []
    if mode.startswith('-i'):
        names = sorted({a for a, _ in args if a}, key=len, reverse=True)          # (the empty string is never asked about)
        for chunk in r.out.split('? ')[:-1]:
            best = None
            for a in names:
                k = chunk.rfind("'%s'" % a)
                if k < 0:
                    k = chunk.rfind(a)
                if k < 0 and any(0xd800 <= ord(ch) <= 0xdfff for ch in a):
                    # a name that cannot be written as it is may be shown escaped: recognise it by its printable part
                    k = chunk.rfind(a[:6])
                if k >= 0 and (best is None or k > best[0]):
                    best = (k, a)
            prompts.append(best[1] if best else None)
    out = []
    seen_trashed = set()
    pi = 0
    for k, (a, E) in enumerate(args):
        declined = False
        if E is None:
            out.append(('none', False))
            continue
        if E in seen_trashed:
            out.append(('gone-before', False))
            continue
        if mode.startswith('-i') and pi < len(prompts) and prompts[pi] == a:
            rep = reply_for(mode, pi)
            declined = not rep.lower().startswith('y')
            pi += 1
        if declined:
            out.append(('DECLINED', True))
            continue
        others = [x[1] for x in args if x[1] is not None and x[1] != E]
        st = scen.classify_put(before, after, E, others=others)['state']
        # an entry named twice: this attempt is the one that trashed it only if it is the last attempt
        later = [j for j in range(k + 1, len(args)) if args[j][1] == E]
        if st == 'TRASHED' and later and mode.startswith('-i'):
            # a later duplicate may have been the successful one; decide by the replies
            pass
        out.append((st, False))
        if st == 'TRASHED':
            seen_trashed.add(E)
    return out, len(prompts)


def reply_for(mode, k):
    if mode == '-iblank':
        return ('y', '', ' ')[k % 3]          # just Enter, or a blank: declined
    return {'-iy': 'y', '-in': 'n'}.get(mode, 'yn'[k % 2])


def run_case(c):
    seq, mode = c['seq'], c['mode']
    W, args = make_world(seq)
    replies = [reply_for(mode, k) for k in range(len(args) + 2)]
    before, r, after = run_list(W, args, mode, replies)
    outs, nprompts = outcomes(before, r, after, args, mode)
    detail = {'seq': seq, 'mode': mode, 'args': [a for a, _ in args], 'exit': r.exit, 'err': r.err[-500:], 'outcomes': outs}
    ok_flags, failed = [], []
    for (a, E), cl, (st, declined) in zip(args, seq, outs):
        if st == 'HALF':
            return {'verdict': 'viol', 'sig': 'C16|half-state|cls=%s' % cl, 'klass': 'half', 'detail': detail}
        if st == 'TRASHED':
            ok = True
        elif declined:
            ok = True
        elif st in ('none', 'gone-before') and mode == '-f' and a not in ('.', '..'):
            ok = True
        else:
            ok = False
        ok_flags.append(ok)
        if not ok:
            failed.append((a, cl))
    sig_seq = ','.join(sorted(set(seq)))
    vec = ''.join('T' if o[0] == 'TRASHED' else ('d' if o[1] else 'x') for o in outs)
    nt = len(set(vec)) > 1 and ('%s|%s|%d|%s' % (mode, sig_seq, r.exit, ''.join(sorted(vec))))
    has_nu = 'nonutf8' in seq
    if (r.exit == 0) != all(ok_flags):
        return {'verdict': 'viol', 'sig': 'C16|exit-status-lies|exit=%s|failed-classes=%s' % ('0' if r.exit == 0 else 'nonzero', ','.join(sorted({cl for _, cl in failed})) or 'none'),
                'klass': 'exit-status-lies', 'nontrivial': nt, 'detail': detail}
    for a, cl in failed:
        needle = a[:6] if any(0xd800 <= ord(ch) <= 0xdfff for ch in a) else a
        if needle not in r.err:
            return {'verdict': 'viol', 'sig': 'C16|failed-argument-not-named|cls=%s|list-has-nonutf8=%s' % (cl, has_nu), 'klass': 'not-named',
                    'nontrivial': nt, 'detail': detail}
    # independence: compare with the solo run of each argument (skip duplicates)
    for k, ((a, E), cl, (st, declined)) in enumerate(zip(args, seq, outs)):
        if cl == 'dup' or (k + 1 < len(seq) and seq[k + 1] == 'dup') or E is None:
            continue
        W1, args1 = make_world(seq)
        solo_mode = mode
        rep = ['n' if declined else 'y']
        b1, r1, a1 = run_list(W1, [args1[k]], solo_mode, rep)
        o1, _ = outcomes(b1, r1, a1, [args1[k]], '-iy' if (mode.startswith('-i') and not declined) else ('-in' if mode.startswith('-i') else mode))
        if o1[0][0] != st:
            before_cls = ','.join(sorted(set(seq[:k]))) or 'none'
            return {'verdict': 'viol', 'sig': 'C16|outcome-depends-on-neighbours|cls=%s|alone=%s|in-list=%s|list-has-nonutf8=%s' % (cl, o1[0][0], st, has_nu),
                    'klass': 'not-independent', 'nontrivial': nt, 'detail': dict(detail, arg=a, alone=o1[0][0], earlier=before_cls)}
        if st == 'TRASHED':
            # resulting pair must be the same payload
            pl = [p for p in scen.new_payloads(before, after)]
            p1 = scen.new_payloads(b1, a1)
            if len(p1) != 1 or not any(world.same_entry(a1, '%s/files/%s' % p1[0], after, '%s/files/%s' % q) for q in pl):
                return {'verdict': 'viol', 'sig': 'C16|pair-differs-from-solo-run|cls=%s' % cl, 'klass': 'pair-differs', 'nontrivial': nt, 'detail': detail}
    return {'verdict': 'ok', 'klass': 'honest+independent(exit=%s)' % ('0' if r.exit == 0 else 'nz'), 'nontrivial': nt,
            'execs': 1 + len(seq), 'detail': detail}


def main(tier, seed):
    return product.run(sys.modules[__name__], tier, seed)


def replay(path):
    return product.replay(sys.modules[__name__], path)
