"""C11 -- purging touches nothing outside the trash directories and follows no symlink.

E1 product + syscall trace monitor: payload shapes with symlinks pointing outside x unusual info names x trash dir
reached directly or through symlinks x purge command x orphan-symlink payload."""
import sys

from .. import cell, scen, world
from ..explore import faults, product

PID = 'C11'
LEVEL = 'exploration'
TECHNIQUE = ('bounded-exhaustive enumeration (model checking of the implementation) with a syscall-level trace monitor: payload shapes x info names x '
             'trash-dir reachability x purge commands on the real trash-empty / trash-rm, plus deviation-bounded fault enumeration (every system call x every errno, one deviation per run) on a sub-product; frame snapshot + "every successful mutating syscall lands inside files/ or info/"')
LEVEL_TEXT = ('every combination of payload shape (symlinks to outside files/dirs, absolute/relative/dangling, at depth 1-3, unreadable child), info name, trash-dir reachability and purge '
              'command is executed; the world outside the operated files/ and info/ directories must be byte-identical afterwards and the interposition trace must show no '
              'successful unlink/rmdir/rename/chmod/open-for-write whose resolved entry path lies outside them')
LEVEL_NOTE = 'one injected error per run (pairs of errors are not explored for the purging commands); trusted: the shim\'s entry-path resolution (realpath of the parent + basename); running as root, so mode-000 directories do not block deletion'
RULE = ('payload {link->outside file abs/rel, link->outside dir abs/rel, dangling, tree with outside links at depth 1,2,3, tree with mode-000 child dir, plain file} x info name '
        '{plain, x.trashinfo.trashinfo, name with newline} x reach {direct home, XDG_DATA_HOME symlink, .Trash-uid symlink, Trash/info itself a symlink with a decoy files/ beside its target, $HOME below a directory called info, --trash-dir LINK/../dir with a look-alike where a lexical collapse would point} x command {empty, empty 0, rm *, rm exact} x orphan-symlink '
        'payload {yes,no}; plus {file, tree, link} x reach x command with an info file named .trashinfo / ..trashinfo / ...trashinfo and a file beside files/ and info/; every payload x {direct, XDG symlink} x 4 commands again with geteuid() = 1000; second stage: for every payload x reach {direct, .Trash-uid symlink, info symlink; thorough + XDG symlink} x command {empty, empty 0, rm *; thorough + rm exact} every operation of the fault-free trace answers with every errno it can return, once and (mutating calls) persistently - containment oracle only; non-trivial = at least one deletion syscall was issued; distinct = (payload, name, reach, command, outcome)')
PAYLOADS = ['lf-abs', 'lf-rel', 'ld-abs', 'ld-rel', 'dang', 'tree1', 'tree2', 'tree3', 'tree000', 'file']
NAMES = ['plain', 'dbl', 'newline']
STRAYS = ['.trashinfo', '..trashinfo', '...trashinfo', 'old0.bak', 'zz']          # the last two: not info files at all, with names shorter than the suffix
REACH = ['direct', 'xdg-link', 'alt-link', 'info-link', 'home-named-info', 'tdopt-dotdot', 'xdg-dotdot', 'tdopt-slash']
CMDS = ['empty', 'empty0', 'rm-star', 'rm-exact', 'empty-v', 'empty0-v']


def dimensions(tier):
    return {'payload': len(PAYLOADS), 'info_name': 3, 'reach': len(REACH), 'command': 6, 'orphan_link': 2}


def cases(tier):
    out = [{'pl': p, 'nm': n, 'reach': r, 'cmd': c, 'orphan': o} for o in (0, 1) for c in CMDS for r in REACH for n in NAMES for p in PAYLOADS
           if not (r in ('tdopt-dotdot', 'tdopt-slash') and c.startswith('rm'))]          # trash-rm has no --trash-dir option
    # an info file whose name is nothing but the suffix, or '.' / '..' + suffix: its "payload" would be files/, files/. or files/.. (the trash directory)
    out += [{'pl': p, 'nm': 'plain', 'reach': r, 'cmd': c, 'orphan': 0, 'stray': st} for st in STRAYS for c in CMDS for r in REACH for p in ('file', 'tree1', 'ld-abs')
            if not (r in ('tdopt-dotdot', 'tdopt-slash') and c.startswith('rm'))]
    # a link to a BIG file outside (48 MiB, sparse): nothing may be "given back early" through the link
    out += [{'pl': 'lf-big', 'nm': 'plain', 'reach': 'direct', 'cmd': c, 'orphan': 0} for c in CMDS]
    # the same as an unprivileged user (the code may take other branches when geteuid() != 0; the cell still runs as root)
    out += [{'pl': p, 'nm': 'plain', 'reach': r, 'cmd': c, 'orphan': 1, 'uid': 1000} for c in ('empty', 'empty0', 'rm-star', 'empty-v') for r in ('direct', 'xdg-link')
            for p in PAYLOADS]
    return out


FAULT_BASE = {'quick': (PAYLOADS, ['direct', 'alt-link', 'info-link'], ['empty', 'empty0', 'rm-star']),
              'thorough': (PAYLOADS, ['direct', 'alt-link', 'info-link', 'xdg-link'], ['empty', 'empty0', 'rm-star', 'rm-exact'])}


def fault_stage(tier, cases_, outs):
    """containment must not depend on the file system being well-behaved: for the selected points every operation of the
    fault-free trace answers with every errno it can return (one fault per run; persistent for mutating calls)"""
    pls, reaches, cmds = FAULT_BASE['thorough' if tier == 'thorough' else 'quick']
    out = []
    for c, o in zip(cases_, outs):
        if c['nm'] == 'plain' and c['orphan'] == 1 and not c.get('uid') and not c.get('stray') and c['pl'] in pls and c['reach'] in reaches and c['cmd'] in cmds and o.get('ops'):
            for f in faults.single_faults(o['ops'], sticky=True):
                out.append(dict({k: c[k] for k in ('pl', 'nm', 'reach', 'cmd', 'orphan')}, faults=[f]))
    return out


def add_payload(W, path, pl, rel_out):
    if pl == 'lf-big':
        W.link(path, '/outside/big')
    elif pl == 'lf-abs':
        W.link(path, '/outside/file')
    elif pl == 'lf-rel':
        W.link(path, rel_out + 'outside/file')
    elif pl == 'ld-abs':
        W.link(path, '/outside/dir')
    elif pl == 'ld-rel':
        W.link(path, rel_out + 'outside/dir')
    elif pl == 'dang':
        W.link(path, '/outside/missing')
    elif pl.startswith('tree'):
        W.dir(path, mode=0o755)
        W.file(path + '/plain', 'p\n')
        d = path
        depth = {'tree1': 1, 'tree2': 2, 'tree3': 3, 'tree000': 2}[pl]
        for i in range(depth):
            if i:
                d = d + '/s%d' % i
                W.dir(d, mode=0o755)
            W.link(d + '/to-dir', '/outside/dir')
            W.link(d + '/to-dir2', '/outside/dir')          # two links to a directory next to each other in any sorted listing
            W.link(d + '/to-file', '/outside/file')
            W.link(d + '/to-parent', '..')
        if pl == 'tree000':
            W.dir(path + '/locked', mode=0o000)
    else:
        W.file(path, 'plain payload\n')


def run_case(c):
    env = {'HOME': '/home/u'}
    W = scen.base_world(mounts=['/', '/mnt/v1'], cwd='/', uid=c.get('uid', 0))
    W.file('/outside/file', 'precious file\n', mode=0o444).dir('/outside/dir', mode=0o755).file('/outside/dir/inner', 'precious inner\n')
    W.dir('/outside/dir/sub').file('/outside/dir/sub/deep', 'deep\n')
    if c['reach'] == 'direct':
        td = phys = scen.HOME_TRASH
        rel = False
    elif c['reach'] == 'xdg-link':
        W.dir('/home/u/realxdg').link('/home/u/xdg', 'realxdg')
        env['XDG_DATA_HOME'] = '/home/u/xdg'
        td, phys = '/home/u/xdg/Trash', '/home/u/realxdg/Trash'
        rel = False
    elif c['reach'] == 'home-named-info':
        env['HOME'] = '/home/info'
        td = phys = '/home/info/.local/share/Trash'
        rel = False
        W.dir('/home/files').file('/home/files/victim', 'decoy: sibling directory called files\n').file('/home/files/bystander', 'decoy\n')
        W.dir('/home/info/files').file('/home/info/files/victim', 'decoy 2\n')
    elif c['reach'] == 'info-link':
        td = phys = scen.HOME_TRASH
        rel = False
    elif c['reach'] == 'xdg-dotdot':
        # XDG_DATA_HOME=/home/u/cfg/../data with cfg -> /home/store/deep/cfg: the kernel means /home/store/deep/data, a lexical collapse means /home/u/data (a look-alike)
        W.dir('/home/store/deep/cfg').link('/home/u/cfg', '/home/store/deep/cfg')
        env['XDG_DATA_HOME'] = '/home/u/cfg/../data'
        td, phys = '/home/u/cfg/../data/Trash', '/home/store/deep/data/Trash'
        rel = False
        W.dir('/home/u/data/Trash/files').dir('/home/u/data/Trash/info').file('/home/u/data/Trash/files/victim', 'look-alike, nobody named this directory\n')
        W.file('/home/u/data/Trash/info/victim.trashinfo', '[Trash Info]\nPath=/home/u/w/lookalike\nDeletionDate=2001-01-01T00:00:00\n')
    elif c['reach'] == 'tdopt-slash':
        # --trash-dir /mnt/v1/old/ (trailing slash) run from /snap, which holds a copy of the same layout below itself (a backup snapshot)
        td = phys = '/mnt/v1/old'
        rel = False
        W.dir('/snap/mnt/v1/old/files').dir('/snap/mnt/v1/old/info').file('/snap/mnt/v1/old/files/victim', 'snapshot copy: not the directory that was named\n')
        W.file('/snap/mnt/v1/old/info/victim.trashinfo', '[Trash Info]\nPath=/home/u/w/snap\nDeletionDate=2001-01-01T00:00:00\n')
    elif c['reach'] == 'tdopt-dotdot':
        # --trash-dir LINK/../old : the kernel resolves LINK first (-> /mnt/v1/old); a lexical collapse would name /home/u/old, a look-alike that is NOT operated on
        td = phys = '/mnt/v1/old'
        rel = False
        W.dir('/mnt/v1/data').link('/home/u/usb', '/mnt/v1/data')
        W.dir('/home/u/old/files').dir('/home/u/old/info').file('/home/u/old/files/victim', 'look-alike, not in the trash\n').file('/home/u/old/files/loose', 'look-alike\n')
        W.file('/home/u/old/info/victim.trashinfo', '[Trash Info]\nPath=/home/u/w/lookalike\nDeletionDate=2001-01-01T00:00:00\n')
    else:
        W.dir('/mnt/v1/realtrash', mode=0o700).link('/mnt/v1/.Trash-0', 'realtrash')
        td, phys = '/mnt/v1/.Trash-0', '/mnt/v1/realtrash'
        rel = True
    if c['reach'] == 'info-link':
        # Trash/info -> /store/info ; a decoy /store/files/<name> sits next to the link target and must never be touched
        W.dir(phys, mode=0o700).dir(phys + '/files', mode=0o700).dir('/store/info', mode=0o700).link(phys + '/info', '/store/info')
        W.dir('/store/files')
    else:
        scen.add_trash_dir(W, phys)
    nm = {'plain': 'victim', 'dbl': 'victim.trashinfo', 'newline': 'vic\ntim'}[c['nm']]
    loc = '/home/u/w/orig-name' if not rel else 'w/orig-name'
    infodir = '/store/info' if c['reach'] == 'info-link' else phys + '/info'
    if c['reach'] == 'info-link':
        W.file('/store/files/%s' % nm, 'decoy outside the trash\n').file('/store/files/bystander', 'decoy\n')
    W.file(phys + '/keepme', 'beside files/ and info/: not a trash entry\n')
    W.file(phys + '/directorysizes', '4096 1600000000 victim\n')          # the size cache of trash spec 1.0: beside files/ and info/ as well
    if c.get('stray'):
        W.file('%s/%s' % (infodir, c['stray']), '[Trash Info]\nPath=%s\nDeletionDate=2019-01-01T00:00:00\n' % (loc + '-stray'))
    W.file('%s/%s.trashinfo' % (infodir, nm), '[Trash Info]\nPath=%s\nDeletionDate=2020-01-01T00:00:00\n' % loc)
    up = '../' * (phys.count('/') + 1)
    add_payload(W, '%s/files/%s' % (phys, nm), c['pl'], up)
    if c['reach'] == 'info-link':
        W.file(infodir + '/bystander.trashinfo', '[Trash Info]\nPath=/home/u/w/bystander\nDeletionDate=2024-05-05T00:00:00\n')
        W.file(phys + '/files/bystander', 'bystander\n')
    else:
        scen.add_trashed(W, phys, 'bystander', '/home/u/w/bystander' if not rel else 'w/bystander', '2024-05-05T00:00:00')
    if c['orphan']:
        W.link(phys + '/files/orphan-link', '/outside/dir')
    argv = {'empty': ['trash-empty'], 'empty0': ['trash-empty', '0'], 'rm-star': ['trash-rm', '*'], 'rm-exact': ['trash-rm', 'orig-name'],
            'empty-v': ['trash-empty', '-v'], 'empty0-v': ['trash-empty', '-v', '0']}[c['cmd']]
    if c['reach'] == 'tdopt-dotdot':
        argv = argv + ['--trash-dir', '/home/u/usb/../old']
    if c['reach'] == 'tdopt-slash':
        argv = argv + ['--trash-dir', '/mnt/v1/old/']
    if c['pl'] == 'lf-big':
        W.file('/outside/big', 'start of a big file\n')
    with cell.Sandbox(W.spec()) as sb:
        if c['pl'] == 'lf-big':
            import os
            os.truncate(sb.root + '/outside/big', 48 << 20)
        before = sb.snapshot()
        flts = c.get('faults') or []
        r = sb.run(argv, env=env, cwd='/snap' if c['reach'] == 'tdopt-slash' else '/', now='2024-05-06T07:08:09', plan={'resolve': 'all', 'faults': flts} if flts else {'resolve': 'all'})
        after = sb.snapshot()
    zones = [phys + '/files', infodir]
    detail = {'argv': argv, 'exit': r.exit, 'err': r.err[-300:], 'trash': phys}
    dims = '%s|%s|%s|%s|o%d%s%s' % (c['pl'], c['nm'], c['reach'], c['cmd'], c['orphan'], '|stray=' + c['stray'] if c.get('stray') else '', '|uid1000' if c.get('uid') else '')
    frame = world.diff(before, after, dir_mtime=False, ignore=zones)
    muts = [t for t in r.trace if cell.is_mutating(t) and cell.ok_of(t)]
    outside = [t[:4] for t in muts if not all(any(e.startswith(z + '/') for z in zones) for e in (t[3] or t[2]))]
    nt = bool(muts) and dims
    blame = 'payload=%s|cmd=%s|reach=%s' % (c['pl'], c['cmd'], c['reach'])
    if c.get('stray'):
        blame += '|info-file-named=' + c['stray']
    if flts:
        f = flts[0]
        delivered = any(t[0] == f['at'] and t[4] == f['errno'] for t in r.trace)
        blame += '|after-%s-failed' % f['op']
        dims += '|%s:%s%s' % (f['op'], f['errno'], '*' if f.get('sticky') else '')
        nt = delivered and dims
        detail['faults'] = flts
    if frame:
        return {'verdict': 'viol', 'sig': 'C11|outside-world-changed|' + blame, 'klass': 'outside-changed', 'nontrivial': nt, 'detail': dict(detail, changed=frame[:8])}
    if outside:
        return {'verdict': 'viol', 'sig': 'C11|mutating-syscall-outside-files-info|op=%s|%s' % (outside[0][1], blame), 'klass': 'syscall-outside', 'nontrivial': nt,
                'detail': dict(detail, ops=outside[:6])}
    if flts:
        # under an injected error only containment is demanded (what is purged after an error is not defined by the property)
        return {'verdict': 'ok', 'klass': 'contained-under-fault', 'nontrivial': nt, 'detail': detail, 'delivered': delivered}
    # the victim must be gone entirely (whole removal), the bystander only for full purges
    if c['reach'] == 'info-link':
        gone = ('%s/%s.trashinfo' % (infodir, nm)) not in after and not world.under(after, '%s/files/%s' % (phys, nm))
        vs = 'purged' if gone else 'not-purged'
    else:
        vs = scen.entry_state(before, after, phys, nm)
    if vs != 'purged':
        return {'verdict': 'viol', 'sig': 'C11|entry-not-purged-whole|state=%s|payload=%s|name=%s' % (vs, c['pl'], c['nm']), 'klass': 'not-purged', 'nontrivial': nt, 'detail': detail}
    out = {'verdict': 'ok', 'klass': 'contained', 'nontrivial': nt, 'detail': detail}
    if not flts:
        out['ops'] = faults.ops_of(r.trace)
    return out


def main(tier, seed):
    return product.run(sys.modules[__name__], tier, seed)


def replay(path):
    return product.replay(sys.modules[__name__], path)
