#!/bin/sh
# Offline setup: nothing to build (pure Python run by /venv/bin/python); run the harness self-tests.
set -e
cd /verif
mkdir -p evidence replays
/venv/bin/python -m vt.selftest.run
