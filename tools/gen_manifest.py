#!/venv/bin/python
"""Regenerates /verif/MANIFEST.json from the check modules present under vt/checks."""
import importlib
import json
import os
import sys

HERE = os.path.dirname(os.path.dirname(os.path.abspath(__file__)))
sys.path.insert(0, HERE)
BASE = json.load(open('/root/.vp/BASELINE.json'))
ALL = [json.loads(l)['id'] for l in open(os.path.join(HERE, 'properties.jsonl'))]
checks, na = [], []
for pid in ALL:
    try:
        m = importlib.import_module('vt.checks.%s' % pid.lower())
    except ImportError:
        na.append({'property_id': pid, 'reason': 'check not built yet in this revision (no claim made); model checking applies, see DESIGN.md section 3'})
        continue
    checks.append({
        'property_id': pid,
        'quick_cmd': 'cd /verif && ./check %s --tier quick' % pid,
        'thorough_cmd': 'cd /verif && ./check %s --tier thorough' % pid,
        'evidence_file': '/verif/evidence/%s.json' % pid,
        'replay_cmd_template': 'cd /verif && ./check %s --replay {path}' % pid,
        'engine': 'vt',
        'level_claimed': {'category': m.LEVEL, 'text': m.LEVEL_TEXT, 'design_ref': 'DESIGN.md section 3/%s' % pid},
        'level_note': m.LEVEL_NOTE,
        'technique': m.TECHNIQUE,
    })
man = {
    'version': 1,
    'setup_cmd': 'cd /verif && ./setup.sh',
    'hooks': {
        'guard': 'TRASHCLI_VERIF (reserved; no source hook exists: all seams are installed from /verif at process start)',
        'enable': 'nothing to enable: checks import trashcli from /repo working tree (VT_REPO) and run the real entry scripts under the os-level interposition layer vt/shim.py',
        'baseline_off_cmd': BASE['cmd'].replace('--junitxml=<file>', '').strip(),
        'source_commits': [],
        'add_only': True,
    },
    'engines': [{
        'name': 'vt', 'path': '/verif/vt',
        'serves_properties': [c['property_id'] for c in checks],
        'kind_free_text': 'implementation-level bounded-exhaustive explorer for the real trash-cli entry scripts: fork+chroot execution cell on tmpfs, syscall-level interposition (virtual mounts, fault/crash injection, scheduler), explorers E1 product, E2 BFS over command histories, E3 crash points, E4 deviation-bounded faults, E5 process-interleaving scheduler',
    }],
    'checks': checks,
    'not_applicable': na,
    'notes': 'Known findings are in /verif/known_findings.json (never written at run time). fix: commits in /repo are recorded there as fixed entries.',
}
json.dump(man, open(os.path.join(HERE, 'MANIFEST.json'), 'w'), indent=1)
print('checks:', [c['property_id'] for c in checks], 'na:', len(na))
