#!/bin/bash
# tools/eval_seed.sh <PID-tag> <out-dir> <check ids...>
# confirms an independently written breaking change (demo passes without / fails with the patch, suite unchanged)
# in a FRESH scratch worktree, runs the given checks against it, stores it under /verif/seeded/<tag>/.
set -u
TAG=$1; OUT=$2; shift 2
CF=/tmp/seed/cf-$TAG
git -C /repo worktree remove --force $CF 2>/dev/null; rm -rf $CF
git -C /repo worktree add -q --detach $CF HEAD || exit 2
DEMO=$(ls $OUT/demo*.py 2>/dev/null | head -1)
run_demo() { if grep -q "def test_" "$DEMO" && ! grep -q "__main__" "$DEMO"; then (cd $CF && WT=$CF /venv/bin/python -m pytest -q -p no:cacheprovider "$DEMO" >/tmp/seed/demo-$TAG.log 2>&1); else (cd /tmp && WT=$CF /venv/bin/python "$DEMO" >/tmp/seed/demo-$TAG.log 2>&1); fi; echo $?; }
D0=$(run_demo)
if ! git -C $CF apply $OUT/patch.diff; then echo "PATCH DOES NOT APPLY"; git -C /repo worktree remove --force $CF; exit 2; fi
D1=$(run_demo)
SUITE=$(cd $CF && /venv/bin/python -m pytest -q -p no:cacheprovider 2>&1 | tail -1)
echo "demo without patch: exit $D0 ; with patch: exit $D1 ; suite: $SUITE"
mkdir -p /verif/seeded/$TAG
RES=""
for id in "$@"; do
  L=$(cd ${CHKDIR:-/verif} && VT_REPO=$CF VT_EVIDENCE_DIR=/tmp/seed/ev-$TAG VT_REPLAY_DIR=/tmp/seed/rp-$TAG ./check $id --tier ${TIER:-quick} 2>&1 | grep -E "VIOLATION|HARNESS|$id (quick|thorough)")
  NV=$(echo "$L" | grep -c VIOLATION)
  echo "$id: $NV new violation line(s); $(echo "$L" | tail -1 | cut -c1-160)"
  echo "$L" | grep -A1 VIOLATION | head -4 | cut -c1-300
  RES="$RES $id:$NV"
done
cp $OUT/patch.diff /verif/seeded/$TAG/patch.diff; cp "$DEMO" /verif/seeded/$TAG/; cp $OUT/meta.json /verif/seeded/$TAG/agent_meta.json 2>/dev/null
/venv/bin/python - "$TAG" "$D0" "$D1" "$SUITE" "$RES" "${TIER:-quick}" <<'P'
import json,sys,os
tag,d0,d1,suite,res,tier=sys.argv[1:7]
p='/verif/seeded/%s/agent_meta.json'%tag
a=json.load(open(p)) if os.path.exists(p) else {}
m={'property':a.get('property',tag[:3]),'breaks':a.get('summary'),'needs_to_manifest':a.get('needs'),'files_changed':a.get('files_changed'),
   'confirmed':{'demo_exit_without_patch':int(d0),'demo_exit_with_patch':int(d1),'suite_with_patch':suite,
                'how':'fresh scratch worktree of /repo HEAD under /tmp/seed; demo run with WT=<worktree>; suite = /venv/bin/python -m pytest -q -p no:cacheprovider'},
   'checks_run':{x.split(':')[0]:('DETECTED (%s violation classes)'%x.split(':')[1] if x.split(':')[1]!='0' else 'missed') for x in res.split()},'tier':tier}
json.dump(m,open('/verif/seeded/%s/meta.json'%tag,'w'),indent=1)
P
git -C /repo worktree remove --force $CF; rm -rf /tmp/seed/ev-$TAG /tmp/seed/rp-$TAG
