#!/bin/bash
# tools/seed_regression.sh [tags...]  -- re-runs, for every seeded change, the checks that caught it; prints REGRESSION if one no longer does
cd /verif
tags="$@"; [ -z "$tags" ] && tags=$(ls seeded)
for t in $tags; do
  ids=$(/venv/bin/python -c "
import json; m=json.load(open('/verif/seeded/$t/meta.json')); print(' '.join(k for k,v in m['checks_run'].items() if v.startswith('DET')))")
  [ -z "$ids" ] && { echo "$t: (not caught by any check; skipped)"; continue; }
  D=/dev/shm/sr-$$; rm -rf $D; mkdir -p $D; git -C /repo archive HEAD | tar -x -C $D
  (cd $D && git apply --unsafe-paths --directory=$D /verif/seeded/$t/patch.diff 2>/dev/null || patch -p1 -s < /verif/seeded/$t/patch.diff) || { echo "$t: PATCH FAILED"; continue; }
  for id in $ids; do
    s0=$(date +%s)
    n=$(VT_REPO=$D VT_EVIDENCE_DIR=$D/ev VT_REPLAY_DIR=$D/rp timeout ${SR_TIMEOUT:-1500} ./check $id --tier quick 2>&1 | grep -c "^VIOLATION")
    el=$(( $(date +%s) - s0 ))
    if [ "$el" -ge ${SR_TIMEOUT:-1500} ]; then echo "$t: TIMEOUT $id (${el}s)"; ps -eo pid,args | grep "[/]check $id --tier" | awk '{print $1}' | xargs -r kill 2>/dev/null
    elif [ "$n" -gt 0 ]; then echo "$t: $id still catches it ($n; ${el}s)"; else echo "$t: REGRESSION $id no longer catches it"; fi
  done
  rm -rf $D
done
echo REGRESSION-RUN-DONE
