#!/bin/sh
# tools/with_mutant.sh <patch.diff> <check ids...>  -- run checks against a scratch copy of /repo with the patch applied
set -e
P=$(realpath "$1"); shift
D=/dev/shm/mut-$$
rm -rf $D; mkdir -p $D
git -C /repo archive HEAD | tar -x -C $D
# include working-tree state of /repo (uncommitted edits are not expected)
(cd $D && patch -p1 -s < "$P")
for id in "$@"; do
  VT_REPO=$D VT_EVIDENCE_DIR=$D/evidence VT_REPLAY_DIR=$D/replays /verif/check $id --tier ${TIER:-quick} 2>&1 | grep -E "VIOLATION|KNOWN|HARNESS|$id (quick|thorough)" | cut -c1-220 || true
done
rm -rf $D
