#!/venv/bin/python
"""tools/sizes.py -- one line per check from evidence/*.json (for DESIGN section 9)"""
import glob, json, os
out = []
for f in sorted(glob.glob(os.path.join(os.path.dirname(os.path.dirname(os.path.abspath(__file__))), 'evidence', 'C*.json'))):
    e = json.load(open(f)); c = e['coverage']
    extra = ''
    for k in ('states', 'transitions', 'executions_per_level', 'fault_stage', 'sequential', 'schedules'):
        if k in c:
            extra += ' %s=%s' % (k, json.dumps(c[k]) if not isinstance(c[k], (int, str)) else c[k])
    out.append('%s %s: %d evaluations, %d distinct non-trivial, %.0f s%s' % (e['property_id'], e['tier'], c['evaluations'], c['distinct_nontrivial'], e['wall_s'], extra[:200]))
print('\n'.join(out))
