#!/venv/bin/python
"""tools/findings.py add <property> <open|fixed> <signature> <what> [commit]  -- maintains known_findings.json (development-time only)"""
import json, sys
p = '/verif/known_findings.json'
d = json.load(open(p))
_, cmd, prop, status, sig, what, *rest = sys.argv
e = {'property': prop, 'status': status, 'signature': sig, 'what': what}
if status == 'fixed':
    e['commit'] = rest[0]
    e['line'] = 'fixed: property=%s %s %s' % (prop, rest[0], what)
d['findings'] = [x for x in d['findings'] if not (x['property'] == prop and x['signature'] == sig)] + [e]
d['findings'].sort(key=lambda x: (x['property'], x['status'], x['signature']))
json.dump(d, open(p, 'w'), indent=1)
